//! C06 — "returns normally" monitor over the input trees of both parsers, every unary
//! operation on every result, every binary operation on every pair of distinct reached
//! values, limit / multi-byte / long families, a hang watchdog and the (labelled) growth
//! measurement.

use crate::engine_b::*;
use crate::engine_c::bound_key;
use crate::refmodel::*;
use crate::report::*;
use crate::universe::*;
use miette::Diagnostic;
use nodejs_semver::{Range, SemverError, Version};
use rayon::prelude::*;
use serde_json::{json, Value};
use std::collections::{BTreeMap, HashMap};
use std::sync::atomic::{AtomicBool, AtomicU64, Ordering as AO};
use std::sync::{Arc, Mutex};
use std::time::{Duration, Instant};

// ---------------------------------------------------------------- watchdog ---

pub struct Slot {
    pub beat: AtomicU64,
    pub cur: Mutex<String>,
    pub busy: AtomicBool,
}

pub struct Watch {
    pub slots: Vec<Slot>,
    pub stop: AtomicBool,
}

impl Watch {
    pub fn new() -> Arc<Watch> {
        let n = rayon::current_num_threads() + 1;
        Arc::new(Watch {
            slots: (0..n).map(|_| Slot { beat: AtomicU64::new(0), cur: Mutex::new(String::new()), busy: AtomicBool::new(false) }).collect(),
            stop: AtomicBool::new(false),
        })
    }
    #[inline]
    pub fn enter(&self, what: &str, input: &str) {
        let i = rayon::current_thread_index().map(|x| x + 1).unwrap_or(0);
        let s = &self.slots[i];
        {
            let mut c = s.cur.lock().unwrap();
            c.clear();
            c.push_str(what);
            c.push('\u{1}');
            if input.len() <= 200 {
                c.push_str(input);
            } else {
                c.push_str(&format!("<{} bytes starting {:?}>", input.len(), &input[..input.char_indices().nth(40).map(|x| x.0).unwrap_or(input.len())]));
            }
        }
        s.busy.store(true, AO::Relaxed);
        s.beat.fetch_add(1, AO::Relaxed);
    }
    #[inline]
    pub fn leave(&self) {
        let i = rayon::current_thread_index().map(|x| x + 1).unwrap_or(0);
        self.slots[i].busy.store(false, AO::Relaxed);
    }
}

/// Starts the watchdog thread: a worker stuck in one case for `limit` is a hang violation.
pub fn start_watchdog(w: Arc<Watch>, prop: &'static str, limit: Duration) -> std::thread::JoinHandle<()> {
    std::thread::spawn(move || {
        let n = w.slots.len();
        let mut last: Vec<(u64, Instant)> = (0..n).map(|_| (0, Instant::now())).collect();
        while !w.stop.load(AO::Relaxed) {
            std::thread::sleep(Duration::from_millis(250));
            for i in 0..n {
                let b = w.slots[i].beat.load(AO::Relaxed);
                if b != last[i].0 || !w.slots[i].busy.load(AO::Relaxed) {
                    last[i] = (b, Instant::now());
                } else if last[i].1.elapsed() > limit {
                    let cur = w.slots[i].cur.lock().unwrap().clone();
                    let mut it = cur.splitn(2, '\u{1}');
                    let what = it.next().unwrap_or("?").to_string();
                    let input = it.next().unwrap_or("").to_string();
                    let dir = format!("{}/replays/{}", out_dir(), prop);
                    let _ = std::fs::create_dir_all(&dir);
                    let path = format!("{}/hang-{}.json", dir, i);
                    let rec = json!({"property": prop, "clause": format!("hang:{}", what), "key": format!("{}|hang:{}|input={:?}", prop, what, input),
                        "case": {"engine":"B6","kind":"string","op":what,"input":input}, "observed": format!("no return after {:?}", limit), "expected": "returns"});
                    let _ = std::fs::write(&path, serde_json::to_string_pretty(&rec).unwrap());
                    println!("VIOLATION property={} replay={}", prop, path);
                    println!("  key: {}|hang:{}|input={:?}", prop, what, input);
                    std::process::exit(1);
                }
            }
        }
    })
}

// ------------------------------------------------------------ unary pokes ---

pub fn poke_error(e: &SemverError) {
    let _ = e.input().len();
    let _ = e.offset();
    let _ = e.span();
    let _ = e.kind().clone();
    let _ = e.location();
    let _ = format!("{}", e);
    let _ = format!("{:?}", e);
    let _ = format!("{}", e.kind());
    let _ = format!("{:?}", e.kind());
    let _ = std::error::Error::source(e).map(|s| s.to_string());
    let _ = e.code().map(|c| c.to_string());
    let _ = e.severity();
    let _ = e.help().map(|c| c.to_string());
    let _ = e.url().map(|c| c.to_string());
    let _ = e.kind().code().map(|c| c.to_string());
    let _ = e.kind().help().map(|c| c.to_string());
    let _ = e.kind().url().map(|c| c.to_string());
    let _ = e.kind().severity();
    if let Some(l) = e.labels() {
        for l in l {
            if let Some(src) = e.source_code() {
                let _ = src.read_span(l.inner(), 1, 1).map(|c| c.data().len());
            }
        }
    }
    let _ = e.related().map(|r| r.count());
    let _ = e.diagnostic_source().is_some();
    let c2 = e.clone();
    let _ = c2 == *e;
}

pub fn render_error(e: &SemverError) {
    let mut out = String::new();
    let _ = miette::NarratableReportHandler::new().render_report(&mut out, e);
    let mut out2 = String::new();
    let _ = miette::JSONReportHandler::new().render_report(&mut out2, e);
    let _ = format!("{:?}", miette::Report::new(e.clone()));
}

pub fn poke_version(v: &Version, probe_ranges: &[Range], probe_versions: &[Version]) {
    use std::hash::{Hash, Hasher};
    let _ = v.to_string();
    let _ = format!("{:?}", v);
    let c = v.clone();
    let _ = c == *v;
    let _ = v.cmp(&c);
    let _ = v.partial_cmp(&c);
    let mut h = std::collections::hash_map::DefaultHasher::new();
    v.hash(&mut h);
    let _ = h.finish();
    let _ = v.is_prerelease();
    let _ = v.diff(&c);
    let _ = serde_json::to_string(v);
    for r in probe_ranges {
        let _ = v.satisfies(r);
        let _ = r.satisfies(v);
    }
    for w in probe_versions {
        let _ = v.diff(w).map(|d| d.to_string());
        let _ = w.diff(v);
        let _ = v.cmp(w);
        let _ = v == w;
    }
}

pub fn poke_range(r: &Range, probe_versions: &[Version]) {
    use std::hash::{Hash, Hasher};
    let _ = r.to_string();
    let _ = format!("{:?}", r);
    let c = r.clone();
    let _ = c == *r;
    let mut h = std::collections::hash_map::DefaultHasher::new();
    r.hash(&mut h);
    let _ = h.finish();
    let _ = r.min_version();
    let _ = serde_json::to_string(r);
    for v in probe_versions {
        let _ = r.satisfies(v);
    }
    let _ = r.max_satisfying(probe_versions);
    let _ = r.min_satisfying(probe_versions);
    let _ = r.max_satisfying(&[]);
    // binary operations are n x m in the number of alternatives by construction; self-pairs of
    // giant ranges (thousands of alternatives from the 64 KiB family) are not treated as hangs
    if r.verif_bounds().len() <= 64 {
        let _ = r.intersect(r);
        let _ = r.difference(r);
        let _ = r.allows_all(r);
        let _ = r.allows_any(r);
    }
}

#[derive(Default)]
pub struct C6 {
    pub strings: AtomicU64,
    pub ops: AtomicU64,
    pub versions_ok: AtomicU64,
    pub ranges_ok: AtomicU64,
    pub errors: AtomicU64,
    pub rendered: AtomicU64,
    pub pairs: AtomicU64,
}

pub struct Ctx6<'a> {
    pub sink: &'a Sink,
    pub c: &'a C6,
    pub w: Arc<Watch>,
    pub probe_versions: Vec<Version>,
    pub probe_ranges: Vec<Range>,
    pub versions: Vec<Mutex<HashMap<String, Version>>>,
    pub ranges: Vec<Mutex<HashMap<String, Range>>>,
    pub shapes: Mutex<std::collections::HashSet<String>>,
    pub render_len: usize,
}

impl<'a> Ctx6<'a> {
    fn run(&self, op: &str, input: &str, f: impl FnOnce()) {
        crate::report::beat();
        self.w.enter(op, input);
        self.c.ops.fetch_add(1, AO::Relaxed);
        let r = guarded(f);
        self.w.leave();
        if let Err(msg) = r {
            let shown: String = if input.len() <= 300 { input.to_string() } else { format!("<{} bytes> {}...", input.len(), input.chars().take(60).collect::<String>()) };
            self.sink.report(
                &format!("panic:{}", op),
                format!("input={:?}", shown),
                json!({"engine":"B6","kind":"string","op":op,"input":input}),
                format!("panic: {}", msg),
                "returns".into(),
            );
        }
    }

    pub fn on_version_text(&self, s: &str, collect: bool) {
        self.c.strings.fetch_add(1, AO::Relaxed);
        let mut res = None;
        self.run("Version::parse", s, || res = Some(Version::parse(s)));
        match res {
            Some(Ok(v)) => {
                self.c.versions_ok.fetch_add(1, AO::Relaxed);
                self.run("version-ops", s, || poke_version(&v, &self.probe_ranges, &self.probe_versions));
                if collect {
                    let k = vtext_full(&v);
                    let mut m = self.versions[shard_of(&k)].lock().unwrap();
                    if m.len() < 100 {
                        m.entry(k).or_insert(v);
                    }
                }
            }
            Some(Err(e)) => self.on_error("version", s, &e),
            None => {}
        }
        let mut r2 = None;
        self.run("str::parse::<Version>", s, || r2 = Some(s.parse::<Version>().is_ok()));
    }

    pub fn on_range_text(&self, s: &str, collect: bool) {
        self.c.strings.fetch_add(1, AO::Relaxed);
        let mut res = None;
        self.run("Range::parse", s, || res = Some(Range::parse(s)));
        match res {
            Some(Ok(r)) => {
                self.c.ranges_ok.fetch_add(1, AO::Relaxed);
                self.run("range-ops", s, || poke_range(&r, &self.probe_versions));
                if collect {
                    let mut k = String::new();
                    self.run("verif_bounds", s, || k = bound_key(&r.verif_bounds()));
                    let mut m = self.ranges[shard_of(&k)].lock().unwrap();
                    if !m.contains_key(&k) {
                        m.insert(k, r);
                    }
                }
            }
            Some(Err(e)) => self.on_error("range", s, &e),
            None => {}
        }
    }

    fn on_error(&self, which: &str, s: &str, e: &SemverError) {
        self.c.errors.fetch_add(1, AO::Relaxed);
        self.run(&format!("{}-error-accessors", which), s, || poke_error(e));
        let shape = format!("{}|{:?}|{}|{}", which, std::mem::discriminant(e.kind()), e.offset(), s.len() as i64 - e.offset() as i64);
        if s.chars().count() <= self.render_len || self.shapes.lock().unwrap().insert(shape) {
            self.c.rendered.fetch_add(1, AO::Relaxed);
            self.run(&format!("{}-error-render", which), s, || render_error(e));
        }
    }
}

fn shard_of(k: &str) -> usize {
    let mut h: u64 = 0xcbf29ce484222325;
    for b in k.bytes() {
        h ^= b as u64;
        h = h.wrapping_mul(0x100000001b3);
    }
    (h % 64) as usize
}

fn shards<T>() -> Vec<Mutex<HashMap<String, T>>> {
    (0..64).map(|_| Mutex::new(HashMap::new())).collect()
}

pub fn long_family() -> Vec<String> {
    let pats = ["1.2.3 ", ">=1.2.3 ", "1.2.3 || ", "foo ", " ", "||", "1 - 2 || ", "^1.2.3-a.b.c ", "x", ">", "a.", "~>", "š", "\n", "1.2.3-", "0"];
    let mut out = vec![];
    for p in pats {
        for total in [255usize, 256, 257, 4096, 65536] {
            let n = total / p.len() + 1;
            out.push(p.repeat(n));
            out.push(format!("1.2.3-{}", p.repeat(n)));
            out.push(format!(">=1.2.3-{}", p.repeat(n)));
        }
    }
    out
}

pub fn multibyte_family() -> Vec<String> {
    let mut out = vec![];
    let mb = ["é", "€", "𝟙", "š", "\u{0301}", "\u{feff}", "\u{2028}", "ß"];
    for seed in ["1.2.3", "1.2", ">=1.2.3 <2", "1 - 2", "1.2.3-a+b", "^1.x", "v1.2.3", "||", ""] {
        let chars: Vec<char> = seed.chars().collect();
        for m in mb {
            for i in 0..=chars.len() {
                let mut t: String = chars[..i].iter().collect();
                t.push_str(m);
                t.extend(chars[i..].iter());
                out.push(t.clone());
                out.push(format!("{}{}", t, m));
            }
        }
    }
    // > 256 bytes with multi-byte characters straddling the limit
    for m in mb {
        for lead in 0..4 {
            let mut s = "a".repeat(lead);
            while s.len() <= 260 {
                s.push_str(m);
            }
            out.push(s.clone());
            out.push(format!("1.2.3-{}", s));
        }
    }
    out
}

pub struct Out6 {
    pub counters: BTreeMap<String, u64>,
    pub samples: Vec<Value>,
    pub growth: Value,
}

pub fn run_c06(tier: &str, sink: &Sink) -> Out6 {
    let c = C6::default();
    let w = Watch::new();
    let wd = start_watchdog(w.clone(), "C06", Duration::from_secs(20));
    let probe_versions: Vec<Version> = vec![ver(0, 0, 0, ""), ver(0, 0, 0, "0"), ver(1, 0, 0, ""), ver(1, 0, 0, "a"), ver(1, 2, 3, "a.1"), ver(MAX_SAFE, MAX_SAFE, MAX_SAFE, ""), ver(MAX_SAFE, 0, 0, "a"), verb(1, 2, 3, "", "b"), ver(u64::MAX, u64::MAX, u64::MAX, "18446744073709551615")];
    let probe_ranges: Vec<Range> = ["*", ">=1.0.0-a <2", "^0.0.1 || 1.x", "<=900719925474099", "1.0.0-a - 2.0.0-b"].iter().filter_map(|t| Range::parse(t).ok()).collect();
    let nv = n_for(tier, 'v');
    let nr = n_for(tier, 'r');
    let ctx = Ctx6 { sink, c: &c, w: w.clone(), probe_versions, probe_ranges, versions: shards(), ranges: shards(), shapes: Mutex::new(Default::default()), render_len: nv.saturating_sub(2) };
    // (i) the two input trees
    walk(&SIGMA_V, nv, |s| ctx.on_version_text(s, s.len() <= 7));
    walk(&SIGMA_R, nr, |s| ctx.on_range_text(s, true));
    // both parsers on each other's alphabet (shorter)
    walk(&SIGMA_V, nv.saturating_sub(2), |s| ctx.on_range_text(s, true));
    walk(&SIGMA_R, nr.saturating_sub(1), |s| ctx.on_version_text(s, true));
    // (iv) families
    let syms = edit_symbols();
    let mut fam: Vec<String> = vec![];
    for seed in SEEDS {
        fam.extend(edits1(seed, &syms));
    }
    for seed in [">=1.2.3 <2.0.0", "1.2.3 - 2.3.4", "^1.2.3-a || ~2", "<=1.x", "1.2.3 foo", "*"] {
        fam.extend(edits1(seed, &syms));
    }
    fam.extend(limit_versions());
    fam.extend(multiline_family());
    fam.extend(multibyte_family());
    fam.extend(long_family());
    fam.extend(long_multiline_family());
    // limit numbers in every range form
    for b in ["900719925474098", "900719925474099", "900719925474100", "18446744073709551615", "18446744073709551616"] {
        for op in ["", "=", "<", "<=", ">", ">=", "~", "~>", "^"] {
            for form in ["{}", "{}.1", "1.{}", "{}.1.1", "1.{}.1", "1.1.{}", "{}.{}.{}", "1.1.{}-a", "{}.x", "x.{}"] {
                fam.push(format!("{}{}", op, form.replace("{}", b)));
            }
        }
        for form in ["{} - 2", "1 - {}", "1.{} - 2.{}", "1.1.{} - {}.{}.{}", "{}.{} - {}"] {
            fam.push(form.replace("{}", b));
        }
    }
    fam.par_iter().for_each(|s| {
        ctx.on_version_text(s, true);
        ctx.on_range_text(s, true);
    });
    // (ii) every binary operation on every ordered pair of distinct reached values
    let ranges: Vec<(String, Range)> = {
        let mut v: Vec<(String, Range)> = vec![];
        for m in &ctx.ranges {
            v.extend(m.lock().unwrap().iter().filter(|(_, r)| r.verif_bounds().len() <= 64).map(|(k, r)| (k.clone(), r.clone())));
        }
        v.sort_by(|a, b| (a.0.len(), &a.0).cmp(&(b.0.len(), &b.0)));
        v
    };
    let versions: Vec<(String, Version)> = {
        let mut v: Vec<(String, Version)> = vec![];
        for m in &ctx.versions {
            v.extend(m.lock().unwrap().iter().map(|(k, r)| (k.clone(), r.clone())));
        }
        v.sort_by(|a, b| (a.0.len(), &a.0).cmp(&(b.0.len(), &b.0)));
        v
    };
    let cap = if tier == "thorough" { usize::MAX } else { 700 };
    let rn = ranges.len().min(cap);
    (0..rn).into_par_iter().for_each(|i| {
        for j in 0..rn {
            c.pairs.fetch_add(1, AO::Relaxed);
            let (a, b) = (&ranges[i].1, &ranges[j].1);
            let label = || format!("A={} B={}", ranges[i].0, ranges[j].0);
            for (name, f) in [
                ("intersect", &(|| { let _ = a.intersect(b).map(|r| r.to_string()); }) as &dyn Fn()),
                ("difference", &|| { let _ = a.difference(b).map(|r| (r.to_string(), r.min_version())); }),
                ("allows_all", &|| { let _ = a.allows_all(b); }),
                ("allows_any", &|| { let _ = a.allows_any(b); }),
            ] {
                w.enter(name, "");
                c.ops.fetch_add(1, AO::Relaxed);
                let r = guarded(f);
                w.leave();
                if let Err(msg) = r {
                    sink.report(&format!("panic:{}", name), label(), json!({"engine":"B6","kind":"range-pair","op":name,"a":a.to_string(),"b":b.to_string()}), format!("panic: {}", msg), "returns".into());
                }
            }
        }
    });
    let vn = versions.len().min(if tier == "thorough" { 3000 } else { 600 });
    (0..vn).into_par_iter().for_each(|i| {
        let a = &versions[i].1;
        for j in 0..vn {
            c.pairs.fetch_add(1, AO::Relaxed);
            c.ops.fetch_add(3, AO::Relaxed);
            let b = &versions[j].1;
            if let Err(msg) = guarded(|| {
                let _ = a.cmp(b);
                let _ = a == b;
                let _ = a.diff(b).map(|d| d.to_string());
            }) {
                sink.report("panic:version-pair", format!("a={} b={}", versions[i].0, versions[j].0), json!({"engine":"B6","kind":"version-pair","a":versions[i].0,"b":versions[j].0}), format!("panic: {}", msg), "returns".into());
            }
        }
        // version x range
        for (k, r) in ranges.iter().take(rn).enumerate() {
            if (i + k) % 7 != 0 && tier != "thorough" {
                continue;
            }
            c.pairs.fetch_add(1, AO::Relaxed);
            c.ops.fetch_add(1, AO::Relaxed);
            if let Err(msg) = guarded(|| {
                let _ = r.1.satisfies(a);
            }) {
                sink.report("panic:satisfies", format!("r={} v={}", r.0, versions[i].0), json!({"engine":"B6","kind":"sat-pair","r":r.1.to_string(),"v":versions[i].0}), format!("panic: {}", msg), "returns".into());
            }
        }
    });
    // tuple conversions with debug assertions on (non-negative values only: negatives are outside the property)
    let _ = guarded(|| {
        let _ = Version::from((i8::MAX, 0i8, 0i8));
        let _ = Version::from((u64::MAX, u64::MAX, u64::MAX, u64::MAX)).to_string();
        let _ = Version::from((isize::MAX, isize::MAX, isize::MAX));
    })
    .map_err(|msg| sink.report("panic:from-tuple", "tuple limits".into(), json!({"engine":"B6","kind":"tuple"}), format!("panic: {}", msg), "returns".into()));
    w.stop.store(true, AO::Relaxed);
    let _ = wd.join();
    // (iv-b) wide operands in a child process (stack growth with the number of alternatives)
    let deep = deep_family(tier, sink);
    // (v) labelled measurement: growth of parse+print+min_version time with input length
    let growth = growth_measurement(sink);
    let mut m = BTreeMap::new();
    m.insert("strings".into(), c.strings.load(AO::Relaxed));
    m.insert("operations_run_under_catch_unwind".into(), c.ops.load(AO::Relaxed));
    m.insert("versions_parsed".into(), c.versions_ok.load(AO::Relaxed));
    m.insert("ranges_parsed".into(), c.ranges_ok.load(AO::Relaxed));
    m.insert("errors_poked".into(), c.errors.load(AO::Relaxed));
    m.insert("diagnostics_rendered".into(), c.rendered.load(AO::Relaxed));
    m.insert("distinct_ranges_reached".into(), ranges.len() as u64);
    m.insert("distinct_versions_collected".into(), versions.len() as u64);
    m.insert("value_pairs".into(), c.pairs.load(AO::Relaxed));
    m.insert("family_inputs".into(), fam.len() as u64);
    m.insert("wide_operand_cases_in_child_processes".into(), deep);
    let samples = vec![json!({"input": fam[fam.len() / 2].chars().take(80).collect::<String>()}), json!({"range_pair": [ranges[rn / 2].1.to_string(), ranges[rn - 1].1.to_string()]})];
    Out6 { counters: m, samples, growth }
}

// ------------------------------------------------------ deep / wide operands ---
// Operations whose cost in *stack* could grow with the number of alternatives or comparators
// (a loop rewritten as a recursion; C06-8) abort the process instead of panicking, which no
// catch_unwind can turn into a verdict. These cases therefore run in a child process (this binary,
// subcommand `c06-deep`) on a thread with a small stack; the parent turns an abnormal death into a
// violation. The unchanged crate iterates, so its stack use does not depend on n.

pub const DEEP_CASES: [&str; 9] = ["star-minus-exacts", "exacts-minus-star", "exacts-and-star", "star-and-exacts", "allows", "long-set", "print-parse", "resolver", "exacts-minus-exacts"];
pub const DEEP_STACK: usize = 256 * 1024;

fn exacts_text(n: u64) -> String {
    (1..=n).map(|i| format!("{}.0.0", i)).collect::<Vec<_>>().join("||")
}

/// body of the child process: returns normally, panics (exit 3) or dies
pub fn deep_child(case: &str, n: u64) {
    let case = case.to_string();
    let h = std::thread::Builder::new().stack_size(DEEP_STACK).spawn(move || {
        let star = Range::parse("*").unwrap();
        let wide = Range::parse(exacts_text(n)).expect("a list of exact versions parses");
        match case.as_str() {
            "star-minus-exacts" => { let r = star.difference(&wide).expect("something is left"); assert!(!r.satisfies(&ver(n, 0, 0, ""))); assert!(r.satisfies(&ver(n, 0, 1, ""))); }
            "exacts-minus-star" => assert!(wide.difference(&star).is_none()),
            "exacts-and-star" => { let r = wide.intersect(&star).expect("non-empty"); assert!(r.satisfies(&ver(n, 0, 0, ""))); }
            "star-and-exacts" => { let r = star.intersect(&wide).expect("non-empty"); assert!(r.satisfies(&ver(1, 0, 0, ""))); }
            "allows" => { assert!(star.allows_any(&wide)); assert!(wide.allows_any(&star)); let _ = star.allows_all(&wide); let _ = wide.allows_all(&star); }
            "long-set" => {
                let t = (0..n).map(|i| format!(">={}.0.0", i % 7)).collect::<Vec<_>>().join(" ");
                let r = Range::parse(t).expect("a long comparator set parses");
                assert!(r.satisfies(&ver(6, 0, 0, "")) && !r.satisfies(&ver(5, 0, 0, "")));
            }
            "print-parse" => { let t = wide.to_string(); let r2 = Range::parse(&t).expect("printed form parses"); assert!(r2 == wide); let _ = format!("{:?}", wide); let _ = wide.clone(); let _ = wide.min_version(); }
            "resolver" => {
                let list: Vec<Version> = (0..n).map(|i| ver(i % 97, i % 5, 0, if i % 3 == 0 { "a" } else { "" })).collect();
                let r = Range::parse(">=3.0.0-a <90").unwrap();
                assert!(r.max_satisfying(&list).is_some() && r.min_satisfying(&list).is_some());
                let mut l2 = list.clone();
                l2.sort();
            }
            _ => {
                // every second exact version removed from the list of all
                let half = Range::parse((1..=n).filter(|i| i % 2 == 0).map(|i| format!("{}.0.0", i)).collect::<Vec<_>>().join("||")).unwrap();
                let m = n.min(1500); // quadratic: keep the operands moderate
                let a = Range::parse(exacts_text(m)).unwrap();
                let r = a.difference(&half).expect("odd ones remain");
                assert!(r.satisfies(&ver(1, 0, 0, "")) && !r.satisfies(&ver(2, 0, 0, "")));
            }
        }
    });
    match h.expect("spawn").join() {
        Ok(()) => std::process::exit(0),
        Err(_) => std::process::exit(3),
    }
}

/// parent side: one child per case; returns the number of cases run
pub fn deep_family(tier: &str, sink: &Sink) -> u64 {
    let n: u64 = if tier == "thorough" { 10000 } else { 2500 };
    let exe = match std::env::current_exe() {
        Ok(e) => e,
        Err(_) => return 0,
    };
    let results: Vec<(String, Option<String>)> = DEEP_CASES
        .par_iter()
        .map(|case| {
            crate::report::beat();
            let child = std::process::Command::new(&exe).arg("c06-deep").arg(case).arg(n.to_string()).stdout(std::process::Stdio::null()).stderr(std::process::Stdio::piped()).spawn();
            let mut child = match child {
                Ok(c) => c,
                Err(e) => return (case.to_string(), Some(format!("MACHINERY: cannot start the child process: {}", e))),
            };
            let t0 = Instant::now();
            let status = loop {
                match child.try_wait() {
                    Ok(Some(st)) => break Some(st),
                    Ok(None) => {
                        if t0.elapsed() > Duration::from_secs(240) {
                            let _ = child.kill();
                            let _ = child.wait();
                            break None;
                        }
                        std::thread::sleep(Duration::from_millis(20));
                        crate::report::beat();
                    }
                    Err(_) => break None,
                }
            };
            let mut err = String::new();
            if let Some(mut e) = child.stderr.take() {
                use std::io::Read;
                let _ = e.read_to_string(&mut err);
            }
            let err: String = err.lines().filter(|l| !l.trim().is_empty()).take(2).collect::<Vec<_>>().join(" / ").chars().take(200).collect();
            let verdict = match status {
                None => Some(format!("does not return within 240 s ({} alternatives)", n)),
                Some(st) if st.success() => None,
                Some(st) => {
                    use std::os::unix::process::ExitStatusExt;
                    match (st.code(), st.signal()) {
                        (Some(3), _) => Some(format!("panics ({} alternatives): {}", n, err)),
                        (_, Some(sig)) => Some(format!("the process dies with signal {} ({} alternatives, {} KiB stack): {}", sig, n, DEEP_STACK / 1024, err)),
                        (c, _) => Some(format!("the child exits with {:?}: {}", c, err)),
                    }
                }
            };
            (case.to_string(), verdict)
        })
        .collect();
    for (case, verdict) in &results {
        if let Some(v) = verdict {
            if v.starts_with("MACHINERY") {
                eprintln!("{}", v);
                std::process::exit(2);
            }
            sink.report(&format!("deep:{}", case), format!("case={}|n={}", case, n), json!({"engine":"B6","kind":"deep","case":case,"n":n,"tier":tier}), v.clone(), "returns normally, whatever the number of alternatives".into());
        }
    }
    results.len() as u64
}

fn time_once(s: &str) -> f64 {
    let t = Instant::now();
    if let Ok(r) = Range::parse(s) {
        let _ = r.to_string();
        let _ = r.min_version();
        let _ = r.satisfies(&ver(1, 2, 3, ""));
    }
    let _ = Version::parse(s).map(|v| v.to_string());
    t.elapsed().as_secs_f64()
}

/// Not part of the exhaustive claim: a measurement of time growth, alarm only for clearly
/// super-linear (>= quadratic-like) growth: T(64 KiB) > 8 * 64 * T(1 KiB) and T(64 KiB) > 0.2 s.
pub fn growth_measurement(sink: &Sink) -> Value {
    let pats = ["1.2.3 ", ">=1.2.3 ", "1.2.3 || ", "foo ", " ", "||", "1 - 2 || ", "^1.2.3-a.b.c ", "x", ">", "1.2.3-a.", "~>", "\t", " - ", "* ", "|| ", "v", "1.2.3+b.", "<=1.x ", "0", "{i}.0.0||", ">={i}.0.0 ", "1.{i}.x || ", "<{i}.0.0-a.{i} || "];
    let mut rows = vec![];
    for p in pats {
        let mk = |total: usize| -> String {
            if p == "1.2.3-a." {
                format!("1.2.3-{}a", "a.".repeat(total / 2))
            } else if p.contains("{i}") {
                // distinct items (a repeated identical item hides quadratic bookkeeping such as
                // duplicate detection by linear search)
                let mut t = String::with_capacity(total + 32);
                let mut i = 0u64;
                while t.len() < total {
                    t.push_str(&p.replace("{i}", &i.to_string()));
                    i += 1;
                }
                t.push_str("1.0.0");
                t
            } else {
                p.repeat(total / p.len() + 1)
            }
        };
        let small = mk(1 << 10);
        let big = mk(1 << 16);
        let t1 = (0..5).map(|_| time_once(&small)).fold(f64::MAX, f64::min).max(1e-7);
        let t2 = (0..3).map(|_| time_once(&big)).fold(f64::MAX, f64::min);
        let ratio = t2 / t1;
        let mut row = json!({"pattern": p, "t_1KiB_s": t1, "t_64KiB_s": t2, "ratio": ratio});
        if ratio > 8.0 * 64.0 && t2 > 0.2 {
            sink.report(&format!("growth:{}", p), format!("pattern={:?}", p), json!({"engine":"B6","kind":"growth","pattern":p}), format!("T(64KiB)/T(1KiB) = {:.0} (T(64KiB) = {:.3}s)", ratio, t2), "<= 512 (roughly linear)".into());
        } else if p.contains("{i}") {
            // distinct items: one more size, so that a quadratic cost with a small constant
            // (a linear search per item) stands out: linear gives a ratio near 256, quadratic 65536
            let huge = mk(1 << 18);
            let t3 = (0..2).map(|_| time_once(&huge)).fold(f64::MAX, f64::min);
            let ratio3 = t3 / t1;
            row["t_256KiB_s"] = json!(t3);
            row["ratio_256"] = json!(ratio3);
            if ratio3 > 8.0 * 256.0 && t3 > 0.5 {
                sink.report(&format!("growth:{}", p), format!("pattern={:?}", p), json!({"engine":"B6","kind":"growth","pattern":p}), format!("T(256KiB)/T(1KiB) = {:.0} (T(256KiB) = {:.3}s)", ratio3, t3), "<= 2048 (roughly linear)".into());
            }
        }
        rows.push(row);
    }
    json!({"labelled_measurement_not_exhaustive": true, "rows": rows})
}

pub fn replay(case: &Value, sink: &Sink) {
    let c = C6::default();
    let w = Watch::new();
    let ctx = Ctx6 {
        sink,
        c: &c,
        w,
        probe_versions: vec![ver(0, 0, 0, ""), ver(1, 0, 0, "a"), ver(MAX_SAFE, MAX_SAFE, MAX_SAFE, "")],
        probe_ranges: ["*", ">=1.0.0-a <2"].iter().filter_map(|t| Range::parse(t).ok()).collect(),
        versions: shards(),
        ranges: shards(),
        shapes: Mutex::new(Default::default()),
        render_len: usize::MAX,
    };
    match case["kind"].as_str().unwrap_or("") {
        "string" => {
            let s = case["input"].as_str().unwrap_or("");
            ctx.on_version_text(s, false);
            ctx.on_range_text(s, false);
        }
        "range-pair" => {
            let (Ok(a), Ok(b)) = (Range::parse(case["a"].as_str().unwrap_or("")), Range::parse(case["b"].as_str().unwrap_or(""))) else { return };
            let op = case["op"].as_str().unwrap_or("");
            let label = format!("A={} B={}", bound_key(&a.verif_bounds()), bound_key(&b.verif_bounds()));
            let r = guarded(|| match op {
                "intersect" => { let _ = a.intersect(&b).map(|r| r.to_string()); }
                "difference" => { let _ = a.difference(&b).map(|r| (r.to_string(), r.min_version())); }
                "allows_all" => { let _ = a.allows_all(&b); }
                _ => { let _ = a.allows_any(&b); }
            });
            if let Err(msg) = r {
                sink.report(&format!("panic:{}", op), label, case.clone(), format!("panic: {}", msg), "returns".into());
            }
        }
        "growth" => {
            let _ = growth_measurement(sink);
        }
        "deep" => {
            let _ = deep_family(case["tier"].as_str().unwrap_or("quick"), sink);
        }
        "version-pair" => {
            let (Ok(a), Ok(b)) = (Version::parse(case["a"].as_str().unwrap_or("")), Version::parse(case["b"].as_str().unwrap_or(""))) else { return };
            if let Err(msg) = guarded(|| {
                let _ = a.cmp(&b);
                let _ = a == b;
                let _ = a.diff(&b).map(|d| d.to_string());
            }) {
                sink.report("panic:version-pair", format!("a={} b={}", vtext_full(&a), vtext_full(&b)), case.clone(), format!("panic: {}", msg), "returns".into());
            }
        }
        "sat-pair" => {
            let (Ok(r), Ok(v)) = (Range::parse(case["r"].as_str().unwrap_or("")), Version::parse(case["v"].as_str().unwrap_or(""))) else { return };
            if let Err(msg) = guarded(|| { let _ = r.satisfies(&v); }) {
                sink.report("panic:satisfies", format!("r={} v={}", bound_key(&r.verif_bounds()), vtext_full(&v)), case.clone(), format!("panic: {}", msg), "returns".into());
            }
        }
        "tuple" => {
            if let Err(msg) = guarded(|| {
                let _ = Version::from((i8::MAX, 0i8, 0i8));
                let _ = Version::from((u64::MAX, u64::MAX, u64::MAX, u64::MAX)).to_string();
                let _ = Version::from((isize::MAX, isize::MAX, isize::MAX));
            }) {
                sink.report("panic:from-tuple", "tuple limits".into(), case.clone(), format!("panic: {}", msg), "returns".into());
            }
        }
        _ => {}
    }
}
