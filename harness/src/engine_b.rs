//! Engine B — depth-bounded exhaustive walk of the input tree of both parsers
//! (every string over a token-class alphabet up to length n), edit
//! neighbourhoods of canonical seeds and limit families, with per-property
//! monitors (C05 language+denotation, C06 no panic, C12/C13 round trips,
//! C17 error reports).

use crate::engine_c::{bound_key, check_roundtrip, intervals_of, real_sat_bits, within_bits};
use crate::refmodel::*;
use crate::report::*;
use crate::universe::*;
use miette::Diagnostic;
use nodejs_semver::{Identifier, Range, SemverError, SemverErrorKind, Version, MAX_LENGTH};
use rayon::prelude::*;
use serde_json::{json, Value};
use std::collections::BTreeMap;
use std::sync::atomic::{AtomicU64, Ordering as AO};
use std::sync::Mutex;

pub const SIGMA_V: [&str; 11] = ["0", "1", "9", ".", "-", "+", "a", "v", " ", "x", "š"];
pub const SIGMA_R: [&str; 16] = ["0", "1", ".", "-", "+", "a", "x", "*", " ", "|", "<", ">", "=", "~", "^", "v"];

/// Calls `f` for every string over `sigma` of length 0..=n (in symbols), in parallel over the
/// first two symbols; enumeration order inside a shard is shortlex-by-prefix (deterministic).
pub fn walk<F: Fn(&str) + Sync>(sigma: &[&str], n: usize, f: F) -> u64 {
    let k = sigma.len();
    let count = AtomicU64::new(0);
    f("");
    count.fetch_add(1, AO::Relaxed);
    if n == 0 {
        return 1;
    }
    // shards: first symbol (and second if n>=2)
    let mut shards: Vec<Vec<usize>> = vec![];
    for a in 0..k {
        if n >= 2 {
            for b in 0..k {
                shards.push(vec![a, b]);
            }
        } else {
            shards.push(vec![a]);
        }
    }
    // strings of length 1 when sharding by 2
    if n >= 2 {
        for a in 0..k {
            f(sigma[a]);
            count.fetch_add(1, AO::Relaxed);
        }
    }
    shards.par_iter().for_each(|pre| {
        let mut local = 0u64;
        let mut buf = String::new();
        let base: String = pre.iter().map(|i| sigma[*i]).collect();
        let maxd = n - pre.len();
        // iterative DFS: visit node, then children
        fn rec<F: Fn(&str)>(sigma: &[&str], buf: &mut String, depth: usize, maxd: usize, f: &F, local: &mut u64) {
            crate::report::beat();
            f(buf);
            *local += 1;
            if depth == maxd {
                return;
            }
            for s in sigma {
                let l = buf.len();
                buf.push_str(s);
                rec(sigma, buf, depth + 1, maxd, f, local);
                buf.truncate(l);
            }
        }
        buf.push_str(&base);
        rec(sigma, &mut buf, 0, maxd, &f, &mut local);
        count.fetch_add(local, AO::Relaxed);
    });
    count.load(AO::Relaxed)
}

// ------------------------------------------------------- version recogniser ---

pub struct Denot {
    pub major: u64,
    pub minor: u64,
    pub patch: u64,
    pub pre: Vec<Identifier>,
    pub build: Vec<Identifier>,
    pub strict: bool, // canonical spelling: no blanks, no v, no leading zeros, tag with hyphen
}

fn is_blank(b: u8) -> bool {
    b == b' ' || b == b'\t' || b == b'\n' || b == b'\r'
}
fn is_idch(b: u8) -> bool {
    b.is_ascii_alphanumeric() || b == b'-'
}

/// Hand-written matcher for the version language of C05 (with the loose spellings the
/// property leaves open: surrounding blanks, v/V, leading zeros, hyphen-less letter-led tag).
pub fn recognise(s: &str) -> Option<Denot> {
    let b = s.as_bytes();
    if b.len() > 256 {
        return None;
    }
    let mut strict = true;
    let mut i = 0;
    while i < b.len() && is_blank(b[i]) {
        i += 1;
        strict = false;
    }
    if i < b.len() && (b[i] == b'v' || b[i] == b'V') {
        i += 1;
        strict = false;
    }
    while i < b.len() && is_blank(b[i]) {
        i += 1;
        strict = false;
    }
    let mut nums = [0u64; 3];
    for k in 0..3 {
        if k > 0 {
            if i < b.len() && b[i] == b'.' {
                i += 1;
            } else {
                return None;
            }
        }
        let st = i;
        let mut val: u128 = 0;
        while i < b.len() && b[i].is_ascii_digit() {
            val = val * 10 + (b[i] - b'0') as u128;
            if val > u64::MAX as u128 {
                return None;
            }
            i += 1;
        }
        if i == st {
            return None;
        }
        if i - st > 1 && b[st] == b'0' {
            strict = false;
        }
        if val > MAX_SAFE as u128 {
            return None;
        }
        nums[k] = val as u64;
    }
    let mut parse_ids = |i: &mut usize, strict: &mut bool| -> Option<Vec<Identifier>> {
        let mut out = vec![];
        loop {
            let st = *i;
            while *i < b.len() && is_idch(b[*i]) {
                *i += 1;
            }
            if *i == st {
                return None;
            }
            let t = &s[st..*i];
            if t.len() > 1 && t.bytes().all(|c| c.is_ascii_digit()) && t.as_bytes()[0] == b'0' {
                *strict = false;
            }
            out.push(ident(t));
            if *i < b.len() && b[*i] == b'.' {
                *i += 1;
            } else {
                return Some(out);
            }
        }
    };
    let mut pre = vec![];
    let mut build = vec![];
    if i < b.len() && b[i] == b'-' {
        i += 1;
        pre = parse_ids(&mut i, &mut strict)?;
    } else if i < b.len() && b[i].is_ascii_alphabetic() {
        strict = false;
        pre = parse_ids(&mut i, &mut strict)?;
    }
    if i < b.len() && b[i] == b'+' {
        i += 1;
        build = parse_ids(&mut i, &mut strict)?;
    }
    while i < b.len() && is_blank(b[i]) {
        i += 1;
        strict = false;
    }
    if i != b.len() {
        return None;
    }
    Some(Denot { major: nums[0], minor: nums[1], patch: nums[2], pre, build, strict })
}

fn denot_matches(d: &Denot, v: &Version) -> bool {
    d.major == v.major && d.minor == v.minor && d.patch == v.patch && ids_same(&d.pre, &v.pre_release) && ids_same(&d.build, &v.build)
}

fn ids_text(x: &[Identifier]) -> String {
    x.iter().map(id_text).collect::<Vec<_>>().join(".")
}

// ------------------------------------------------------------------- C05 ---

#[derive(Default)]
pub struct BCounters {
    pub strings: AtomicU64,
    pub accepted: AtomicU64,
    pub rejected: AtomicU64,
    pub near_miss: AtomicU64,
    pub strict_canonical: AtomicU64,
    pub rendered: AtomicU64,
}

pub fn check_c05(s: &str, sink: &Sink, c: &BCounters, family: &str) {
    crate::report::beat();
    c.strings.fetch_add(1, AO::Relaxed);
    // a different history first: a sibling text (same version, other build metadata / spelling)
    let d = recognise(s);
    if s.len() < 40 && d.is_some() {
        let _ = guarded(|| Version::parse(format!("{}+zz.9", s)).map(|v| v.to_string()));
        let _ = guarded(|| Version::parse(format!("v{}", s)).map(|v| v.to_string()));
    }
    let case = || json!({"engine":"B","kind":"version","input":s});
    let got = match guarded(|| Version::parse(s)) {
        Ok(r) => r,
        Err(_) => return, // C06's business
    };
    match (&got, &d) {
        (Ok(v), None) => {
            c.accepted.fetch_add(1, AO::Relaxed);
            let clause = if s.len() > 256 { "limit-len" } else { "accept-junk" };
            sink.report(clause, format!("input={:?}", s), case(), format!("Ok({})", vtext_full(v)), "Err (not a whole well-formed version)".into());
        }
        (Ok(v), Some(d)) => {
            c.accepted.fetch_add(1, AO::Relaxed);
            if d.strict {
                c.strict_canonical.fetch_add(1, AO::Relaxed);
            }
            if !denot_matches(d, v) {
                sink.report("fields", format!("input={:?}", s), case(), format!("{}.{}.{} pre=[{}] build=[{}]", v.major, v.minor, v.patch, ids_text(&v.pre_release), ids_text(&v.build)), format!("{}.{}.{} pre=[{}] build=[{}]", d.major, d.minor, d.patch, ids_text(&d.pre), ids_text(&d.build)));
            }
        }
        (Err(e), Some(d)) => {
            c.rejected.fetch_add(1, AO::Relaxed);
            if d.strict {
                c.strict_canonical.fetch_add(1, AO::Relaxed);
                let clause = if family == "limit" { "limit-accept" } else { "reject-canonical" };
                sink.report(clause, format!("input={:?}", s), case(), format!("Err({})", e.kind()), "Ok (canonical version within the limits)".into());
            }
        }
        (Err(_), None) => {
            c.rejected.fetch_add(1, AO::Relaxed);
        }
    }
    // history independence: the same input parsed again gives the same result
    if let Ok(again) = guarded(|| Version::parse(s)) {
        let same = match (&got, &again) {
            (Ok(a), Ok(b)) => same_fields(a, b),
            (Err(a), Err(b)) => a.kind() == b.kind() && a.offset() == b.offset(),
            _ => false,
        };
        if !same {
            sink.report("history", format!("input={:?}", s), case(), "a second Version::parse of the same input differs".into(), "same".into());
        }
    }
    // the other observation points agree with Version::parse
    if let Ok(r2) = guarded(|| s.parse::<Version>()) {
        let same = match (&got, &r2) {
            (Ok(a), Ok(b)) => same_fields(a, b),
            (Err(_), Err(_)) => true,
            _ => false,
        };
        if !same {
            sink.report("fromstr", format!("input={:?}", s), case(), "str::parse differs from Version::parse".into(), "same".into());
        }
    }
    if s.len() <= 12 || got.is_ok() {
        let js = serde_json::to_string(s).unwrap();
        if let Ok(r3) = guarded(|| serde_json::from_str::<Version>(&js)) {
            let same = match (&got, &r3) {
                (Ok(a), Ok(b)) => same_fields(a, b),
                (Err(_), Err(_)) => true,
                _ => false,
            };
            if !same {
                sink.report("serde", format!("input={:?}", s), case(), "Deserialize differs from Version::parse".into(), "same".into());
            }
        }
        // non-borrowing deserializers (owned string value, reader)
        let via_value = guarded(|| serde_json::from_value::<Version>(serde_json::Value::String(s.to_string())));
        let via_reader = guarded(|| serde_json::from_reader::<_, Version>(js.as_bytes()));
        for (how, r) in [("from_value", via_value), ("from_reader", via_reader)] {
            if let Ok(r) = r {
                let same = match (&got, &r) {
                    (Ok(a), Ok(b)) => same_fields(a, b),
                    (Err(_), Err(_)) => true,
                    _ => false,
                };
                if !same {
                    sink.report("serde", format!("input={:?}|{}", s, how), case(), format!("serde_json::{} differs from Version::parse", how), "same".into());
                }
            }
        }
    }
}

pub const SEEDS: [&str; 24] = [
    "1.2.3", "0.0.0", "10.20.30", "1.2.3-a", "1.2.3-0", "1.2.3-a.b", "1.2.3-a.1", "1.2.3+b", "1.2.3-a+b", "1.2.3-a.1+b.2",
    "10.20.30-rc.1+build.5", "0.0.0--", "1.2.3-a-b", "1.2.3-1a", "1.2.3-a1.0", "1.0.0-alpha.beta", "1.2.3+0.1", "1.2.3-x.7.z.92",
    "900719925474099.0.0", "0.900719925474099.1", "1.1.900719925474099", "1.2.3-18446744073709551615", "1.2.3+001", "2.0.0-0",
];

pub fn edit_symbols() -> Vec<&'static str> {
    let mut v: Vec<&'static str> = SIGMA_V.to_vec();
    v.extend(["V", "\t", "\n", "é", "€", "𝟙", "A", "Z", "_", "2"]);
    v
}

/// every single edit (insert / delete / replace / append) of `seed` over `syms`
pub fn edits1(seed: &str, syms: &[&str]) -> Vec<String> {
    let chars: Vec<char> = seed.chars().collect();
    let mut out = vec![];
    for i in 0..=chars.len() {
        for s in syms {
            let mut t: String = chars[..i].iter().collect();
            t.push_str(s);
            t.extend(chars[i..].iter());
            out.push(t);
        }
    }
    for i in 0..chars.len() {
        let mut t: String = chars[..i].iter().collect();
        t.extend(chars[i + 1..].iter());
        out.push(t);
        for s in syms {
            let mut t: String = chars[..i].iter().collect();
            t.push_str(s);
            t.extend(chars[i + 1..].iter());
            out.push(t);
        }
    }
    out
}

/// limit families around MAX_LENGTH and MAX_SAFE_INTEGER (complete within their definition)
pub fn limit_versions() -> Vec<String> {
    let mut out = vec![];
    for total in 250..=260usize {
        // pad one element so that the whole string has byte length `total`
        let pad = |prefix: &str, fill: &str, suffix: &str| -> Option<String> {
            let fixed = prefix.len() + suffix.len();
            if total < fixed {
                return None;
            }
            let n = (total - fixed) / fill.len();
            let s = format!("{}{}{}", prefix, fill.repeat(n), suffix);
            if s.len() == total { Some(s) } else { None }
        };
        for s in [
            pad("", "0", "1.2.3"),          // leading zeros on major
            pad("1.2.3-", "a", ""),         // long prerelease identifier
            pad("1.2.3", "a", ""),          // the same without hyphen
            pad("1.2.3-a.", "1", ""),       // long numeric identifier (>= 2^64)
            pad("1.2.3+", "b", ""),         // long build identifier
            pad("1.2.3-a+", "b", ""),
            pad("", " ", "1.2.3"),          // leading blanks
            pad("1.2.3", " ", ""),          // trailing blanks
            pad("v", " ", "1.2.3"),
            pad("1.2.3-", "a.", "a"),       // many identifiers
            pad("1.2.3-", "š", ""),         // multi-byte tail
            pad("1.2.3-a", "š", ""),
            pad("", "š", "1.2.3"),
            pad("1.2.3-", "€", "a"),
            pad("1.2.3+", "𝟙", ""),
        ]
        .into_iter()
        .flatten()
        {
            out.push(s);
        }
    }
    let bigs = ["900719925474098", "900719925474099", "900719925474100", "18446744073709551615", "18446744073709551616", "1000000000000000000000000000000",
        "4294967295", "4294967296", "9007199254740992", "9223372036854775808", "18446744073709551617", "18446744073709551619", "55340232221128654855", "100000000000000000000"];
    for b in bigs {
        for pos in 0..3 {
            for tail in ["", "-a", "+b", "-1.a+2"] {
                let mut c = ["1".to_string(), "2".to_string(), "3".to_string()];
                c[pos] = b.to_string();
                out.push(format!("{}.{}.{}{}", c[0], c[1], c[2], tail));
                out.push(format!("v{}.{}.{}{}", c[0], c[1], c[2], tail));
            }
        }
        out.push(format!("1.2.3-{}", b));
        out.push(format!("1.2.3-a.{}", b));
        out.push(format!("1.2.3+{}", b));
        out.push(format!("{}.{}.{}", b, b, b));
        // the same identifiers zero-padded (an identifier that fits u64 is the number, one that does
        // not is kept as written, zeros included; C12-9) and next to other identifier kinds
        for z in ["0", "00", "000"] {
            out.push(format!("1.2.3-{}{}", z, b));
            out.push(format!("1.2.3+{}{}", z, b));
            out.push(format!("1.2.3-rc.{}{}+{}{}.x", z, b, z, b));
        }
    }
    // an oversized component followed by a multi-byte character at every small distance from the
    // end (an error offset computed from the wrong length lands inside the character; C06-11)
    for b in ["900719925474100", "18446744073709551616", "100000000000000000000"] {
        for ch in ["é", "€", "𝟙"] {
            for k in 0..=24usize {
                let tail = "a".repeat(k);
                out.push(format!("{}{}{}", b, ch, tail));
                out.push(format!("1.{}{}{}", b, ch, tail));
                out.push(format!("1.2.{} {}{}", b, ch, tail));
                out.push(format!("{}.2.3{}{}", b, ch, tail));
            }
        }
    }
    // identifier character classes: digit-led and mixed identifiers, upper case, zeros
    for id in ["0a", "a0", "00", "01", "010", "1e3", "0x10", "00a", "A", "Z", "aA", "RC", "rc", "0-", "-0", "0-0", "2-migration"] {
        out.push(format!("1.2.3-{}", id));
        out.push(format!("1.2.3+{}", id));
        out.push(format!("1.2.3-x.{}.y+{}.z", id, id));
    }
    out
}

pub fn n_for(tier: &str, kind: char) -> usize {
    match (tier, kind) {
        ("thorough", 'v') => 8,
        ("thorough", 'r') => 7,
        ("tiny", _) => 4,
        (_, 'v') => 6,
        (_, _) => 5,
    }
}

pub struct BOut {
    pub counters: BTreeMap<String, u64>,
    pub samples: Vec<Value>,
    pub n: usize,
}

fn snap(c: &BCounters) -> BTreeMap<String, u64> {
    let mut m = BTreeMap::new();
    m.insert("strings".into(), c.strings.load(AO::Relaxed));
    m.insert("accepted".into(), c.accepted.load(AO::Relaxed));
    m.insert("rejected".into(), c.rejected.load(AO::Relaxed));
    m.insert("rejected_within_one_edit_of_an_accepted_seed".into(), c.near_miss.load(AO::Relaxed));
    m.insert("strict_canonical_strings".into(), c.strict_canonical.load(AO::Relaxed));
    m.insert("diagnostics_rendered".into(), c.rendered.load(AO::Relaxed));
    m
}

pub fn run_c05(tier: &str, sink: &Sink) -> BOut {
    let c = BCounters::default();
    // the language check is the cheapest monitor: one symbol deeper than the other walks in thorough
    let n = if tier == "thorough" { 9 } else { n_for(tier, 'v') };
    walk(&SIGMA_V, n, |s| check_c05(s, sink, &c, "sigma"));
    let syms = edit_symbols();
    let seeds: Vec<&str> = SEEDS.to_vec();
    seeds.par_iter().for_each(|seed| {
        for e in edits1(seed, &syms) {
            if recognise(&e).is_none() {
                c.near_miss.fetch_add(1, AO::Relaxed);
            }
            check_c05(&e, sink, &c, "edit1");
        }
    });
    // pairs of edits for the shortest seeds
    let two: Vec<&str> = if tier == "thorough" { SEEDS[..8].to_vec() } else { SEEDS[..2].to_vec() };
    let small: Vec<&str> = SIGMA_V.iter().copied().chain(["V", "\t", "é"]).collect();
    two.par_iter().for_each(|seed| {
        for e1 in edits1(seed, &small) {
            for e2 in edits1(&e1, &small) {
                check_c05(&e2, sink, &c, "edit2");
            }
        }
    });
    for s in limit_versions() {
        check_c05(&s, sink, &c, "limit");
    }
    BOut {
        counters: snap(&c),
        samples: vec![json!("1.9-a+0"), json!(edits1("1.2.3-a", &["š"])[3]), json!({"limit_family_member_len": limit_versions()[40].len()})],
        n,
    }
}

// ------------------------------------------------------------------- C12 ---

pub fn check_c12_value(v: &Version, origin: &str, sink: &Sink) {
    crate::report::beat();
    let case = || json!({"engine":"B","kind":"version-value","major":v.major,"minor":v.minor,"patch":v.patch,"pre":ids_text(&v.pre_release),"build":ids_text(&v.build),"origin":origin});
    let key = format!("origin={:?}|v={}", origin, vtext_full(v));
    let Ok(t) = guarded(|| v.to_string()) else {
        sink.report("reparse", key, case(), "to_string panics".into(), "prints".into());
        return;
    };
    match guarded(|| Version::parse(&t)) {
        Ok(Ok(v2)) => {
            if !same_fields(v, &v2) {
                sink.report("fields", key.clone(), case(), format!("printed {:?} re-parses as {}", t, vtext_full(&v2)), vtext_full(v));
            }
            let t2 = v2.to_string();
            if t2 != t {
                sink.report("fixpoint", key.clone(), case(), format!("{:?} -> {:?}", t, t2), "stable".into());
            }
        }
        Ok(Err(e)) => sink.report("reparse", key.clone(), case(), format!("printed {:?} ({} bytes) does not re-parse: {}", t, t.len(), e.kind()), "Ok".into()),
        Err(m) => sink.report("reparse", key.clone(), case(), format!("parse panics: {}", m), "Ok".into()),
    }
    match serde_json::to_string(v) {
        Ok(js) => {
            let want = serde_json::to_string(&t).unwrap();
            if js != want {
                sink.report("json-text", key.clone(), case(), js.clone(), want);
            }
            match serde_json::from_str::<Version>(&js) {
                Ok(v3) => {
                    if !same_fields(v, &v3) {
                        sink.report("json-back", key, case(), vtext_full(&v3), vtext_full(v));
                    }
                }
                Err(e) => sink.report("json-back", key, case(), format!("{} does not deserialise: {}", js, e), "Ok".into()),
            }
        }
        Err(e) => sink.report("json-text", key, case(), format!("serialise fails: {}", e), "Ok".into()),
    }
}

pub fn run_c12(tier: &str, sink: &Sink) -> BOut {
    let c = BCounters::default();
    let n = n_for(tier, 'v');
    let distinct = Mutex::new(std::collections::HashSet::<String>::new());
    let on = |s: &str| {
        c.strings.fetch_add(1, AO::Relaxed);
        if let Ok(Ok(v)) = guarded(|| Version::parse(s)) {
            c.accepted.fetch_add(1, AO::Relaxed);
            check_c12_value(&v, s, sink);
            if s.len() <= 6 {
                distinct.lock().unwrap().insert(vtext_full(&v));
            }
        }
    };
    walk(&SIGMA_V, n, on);
    let syms = edit_symbols();
    SEEDS.par_iter().for_each(|seed| {
        on(seed);
        for e in edits1(seed, &syms) {
            on(&e);
        }
    });
    for s in limit_versions() {
        on(&s);
    }
    // canonical field combinations built directly (not through the parser)
    let idalpha = ["0", "1", "10", "a", "A", "a-", "-", "1a", "a1", "18446744073709551615", "00a", "--"];
    let mut lists: Vec<String> = vec![String::new()];
    for a in idalpha {
        lists.push(a.to_string());
        for b in idalpha {
            lists.push(format!("{}.{}", a, b));
        }
    }
    let nums = [0u64, 1, MAX_SAFE];
    let mut combos = 0u64;
    for ma in nums {
        for mi in nums {
            for pa in nums {
                for pre in &lists {
                    for build in &lists {
                        let v = verb(ma, mi, pa, pre, build);
                        check_c12_value(&v, "built", sink);
                        combos += 1;
                    }
                }
            }
        }
    }
    // longer identifier lists (4 to 6 identifiers of mixed kinds), in prerelease and build position
    {
        let ids4 = ["0", "1", "10", "a", "a-", "B2", "-"];
        let mut lists4: Vec<String> = vec![];
        for a in ids4 {
            for b in ids4 {
                for c2 in ids4 {
                    for d in ids4 {
                        lists4.push(format!("{}.{}.{}.{}", a, b, c2, d));
                    }
                }
            }
        }
        for (k, l) in lists4.iter().enumerate() {
            check_c12_value(&verb(1, 2, 3, l, ""), "built", sink);
            check_c12_value(&verb(1, 2, 3, "", l), "built", sink);
            combos += 2;
            if k % 7 == 0 {
                let other = &lists4[(k * 31 + 5) % lists4.len()];
                check_c12_value(&verb(0, 0, 1, &format!("{}.x.{}", l, other), &format!("{}.9", other)), "built", sink);
                combos += 1;
            }
        }
    }
    // mid-range numbers (type edges) with a few tag/build shapes
    for n in [9u64, 10, 255, 256, 65536, 4294967295, 4294967296, 281474976710656] {
        for (a, b, c2) in [(n, n, n), (n, 0, 1), (0, n, 1), (1, 0, n)] {
            for pre in ["", "a", "10.a", "0"] {
                for build in ["", "b.1", "001"] {
                    check_c12_value(&verb(a, b, c2, pre, build), "built", sink);
                    combos += 1;
                }
            }
        }
    }
    // built values at the length limit: canonical print of exactly 255 / 256 / 257 bytes
    for total in [255usize, 256, 257] {
        for (prefix, fill) in [("1.2.3-", "a"), ("1.2.3+", "b"), ("1.2.3-a.", "b")] {
            let idlen = total - prefix.len();
            let id = fill.repeat(idlen);
            let v = if prefix.ends_with('+') { verb(1, 2, 3, "", &id) } else if prefix.ends_with("a.") { verb(1, 2, 3, &format!("a.{}", id), "") } else { verb(1, 2, 3, &id, "") };
            if total <= 256 {
                check_c12_value(&v, "built-limit", sink);
                combos += 1;
            }
        }
    }
    let mut m = snap(&c);
    m.insert("built_field_combinations".into(), combos);
    m.insert("distinct_values_from_short_strings".into(), distinct.lock().unwrap().len() as u64);
    BOut { counters: m, samples: vec![json!({"input": "v01.2.3a", "prints": "1.2.3-a"}), json!({"built": "900719925474099.0.1-a-.--+00a"})], n }
}

// ------------------------------------------------------------------- C17 ---

fn expected_location(input: &str, offset: usize) -> ((usize, usize), (usize, usize)) {
    let pre = &input.as_bytes()[..offset];
    let line = pre.iter().filter(|b| **b == b'\n').count();
    let start = pre.iter().rposition(|b| *b == b'\n').map(|p| p + 1).unwrap_or(0);
    let col_bytes = offset - start;
    let col_chars = input[start..offset].chars().count();
    ((line, col_bytes), (line, col_chars))
}

/// All accessor / diagnostic clauses on one error. `render` = also run the report handler.
pub fn check_error(which: &str, input: &str, e: &SemverError, render: bool, sink: &Sink, c: &BCounters) {
    crate::report::beat();
    let case = || json!({"engine":"B","kind":"error","parser":which,"input":input,"render":render});
    let key = |w: &str| format!("parser={}|input={:?}|{}", which, input, w);
    if e.input() != input {
        sink.report("input", key(""), case(), format!("{:?}", e.input()), format!("{:?}", input));
    }
    let off = e.offset();
    if off > input.len() {
        sink.report("offset-range", key(""), case(), format!("{}", off), format!("<= {}", input.len()));
        return;
    }
    if !input.is_char_boundary(off) {
        sink.report("offset-boundary", key(""), case(), format!("{}", off), "a character boundary".into());
    }
    if e.span().offset() != off {
        sink.report("span", key(""), case(), format!("span offset {}", e.span().offset()), format!("{}", off));
    }
    if e.input() == input && input.is_char_boundary(off) {
        match guarded(|| e.location()) {
            Ok(loc) => {
                let (b, ch) = expected_location(input, off);
                if loc != b && loc != ch {
                    sink.report("location", key(""), case(), format!("{:?}", loc), format!("{:?}", b));
                }
            }
            Err(m) => sink.report("location", key(""), case(), format!("panics: {}", m), "returns".into()),
        }
    }
    // diagnostics
    let r = guarded(|| {
        let _ = format!("{}", e);
        let _ = format!("{:?}", e);
        let _ = std::error::Error::source(e);
        let code = e.code().map(|c| c.to_string());
        let _ = e.severity();
        let _ = e.help().map(|h| h.to_string());
        let _ = e.url().map(|h| h.to_string());
        let _ = e.kind().code().map(|c| c.to_string());
        let labels: Vec<miette::LabeledSpan> = e.labels().map(|l| l.collect()).unwrap_or_default();
        let mut span_ok = true;
        if let Some(src) = e.source_code() {
            for l in &labels {
                if src.read_span(l.inner(), 0, 0).is_err() {
                    span_ok = false;
                }
            }
        } else {
            span_ok = false;
        }
        (code.is_some(), !labels.is_empty(), span_ok)
    });
    match r {
        Ok((has_code, has_label, span_ok)) => {
            if !has_code || !has_label || !span_ok {
                sink.report("render", key("parts"), case(), format!("code={} label={} label-span-readable={}", has_code, has_label, span_ok), "all present".into());
            }
        }
        Err(m) => sink.report("render", key("parts"), case(), format!("diagnostic accessor panics: {}", m), "returns".into()),
    }
    if render {
        c.rendered.fetch_add(1, AO::Relaxed);
        let r = guarded(|| {
            let mut out = String::new();
            let h = miette::NarratableReportHandler::new();
            h.render_report(&mut out, e).map(|_| out.len())
        });
        match r {
            Ok(Ok(n)) if n > 0 => {}
            Ok(Ok(_)) => sink.report("render", key("report"), case(), "empty report".into(), "non-empty".into()),
            Ok(Err(_)) => sink.report("render", key("report"), case(), "render_report failed".into(), "Ok".into()),
            Err(m) => sink.report("render", key("report"), case(), format!("render panics: {}", m), "Ok".into()),
        }
    }
}

/// kind rules of C17 for a rejected *version* string
fn check_version_kind(input: &str, e: &SemverError, sink: &Sink) {
    let case = || json!({"engine":"B","kind":"error","parser":"version","input":input,"render":false});
    let key = format!("parser=version|input={:?}|", input);
    if input.len() > MAX_LENGTH {
        if !matches!(e.kind(), SemverErrorKind::MaxLengthError) {
            sink.report("kind-len", key, case(), format!("{:?}", e.kind()), "MaxLengthError".into());
        }
        return;
    }
    // otherwise-valid version with exactly one oversized component: replace it by 1 and recognise
    let b = input.as_bytes();
    let mut i = 0;
    while i < b.len() && is_blank(b[i]) { i += 1; }
    if i < b.len() && (b[i] == b'v' || b[i] == b'V') { i += 1; }
    while i < b.len() && is_blank(b[i]) { i += 1; }
    let mut starts = vec![];
    let mut j = i;
    for k in 0..3 {
        let st = j;
        while j < b.len() && b[j].is_ascii_digit() { j += 1; }
        if j == st { return; }
        starts.push((st, j));
        if k < 2 {
            if j < b.len() && b[j] == b'.' { j += 1 } else { return }
        }
    }
    let vals: Vec<Option<u128>> = starts.iter().map(|(a, z)| input[*a..*z].parse::<u128>().ok()).collect();
    let big: Vec<usize> = (0..3).filter(|k| vals[*k].map(|v| v > MAX_SAFE as u128).unwrap_or(true)).collect();
    if big.len() != 1 {
        return;
    }
    let k = big[0];
    // the rest must be a valid version
    let mut patched = String::new();
    patched.push_str(&input[..starts[k].0]);
    patched.push('1');
    patched.push_str(&input[starts[k].1..]);
    // "otherwise valid": with a small number in that position the crate accepts the string
    // (which loose spellings it accepts is its choice, see C05)
    if recognise(&patched).is_none() || !matches!(guarded(|| Version::parse(&patched)), Ok(Ok(_))) {
        return;
    }
    match vals[k] {
        Some(v) if v <= u64::MAX as u128 => {
            let ok = matches!(e.kind(), SemverErrorKind::MaxIntError(n) if *n as u128 == v);
            if !ok {
                sink.report("kind-maxint", key.clone(), case(), format!("{:?}", e.kind()), format!("MaxIntError({})", v));
            }
            if e.input() == input && e.offset() != starts[k].0 {
                sink.report("kind-maxint", format!("{}offset", key), case(), format!("offset {}", e.offset()), format!("{} (start of the component)", starts[k].0));
            }
        }
        _ => {
            if !matches!(e.kind(), SemverErrorKind::ParseIntError(_)) {
                sink.report("kind-parseint", key, case(), format!("{:?}", e.kind()), "ParseIntError".into());
            }
        }
    }
}

/// C17 kind rule, prefix form: if the text up to the first oversized major/minor/patch component
/// is something the crate's parser gets through (shown by completing that prefix with small
/// numbers and seeing it accepted), the error must be MaxIntError(value) / ParseIntError at the
/// start of that component — whatever follows it.
fn check_version_kind_prefix(input: &str, e: &SemverError, sink: &Sink) {
    if input.len() > MAX_LENGTH {
        return;
    }
    let b = input.as_bytes();
    let mut i = 0;
    while i < b.len() && !b[i].is_ascii_digit() {
        i += 1;
        if i > 4 {
            return; // at most blanks / v / blanks before the core
        }
    }
    let head = &input[..i];
    let mut pos = i;
    for k in 0..3 {
        let st = pos;
        while pos < b.len() && b[pos].is_ascii_digit() {
            pos += 1;
        }
        if pos == st {
            return;
        }
        let digits = &input[st..pos];
        let val = digits.parse::<u128>().ok();
        let oversized = val.map(|v| v > MAX_SAFE as u128).unwrap_or(true);
        if oversized {
            // does the crate reach this component?
            let mut completion = String::from(head);
            completion.push_str(&input[i..st]);
            completion.push('1');
            for _ in k + 1..3 {
                completion.push_str(".1");
            }
            if !matches!(guarded(|| Version::parse(&completion)), Ok(Ok(_))) {
                return;
            }
            let case = || json!({"engine":"B","kind":"error","parser":"version","input":input,"render":false});
            let key = format!("parser=version|input={:?}|prefix", input);
            match val {
                Some(v) if v <= u64::MAX as u128 => {
                    if !matches!(e.kind(), SemverErrorKind::MaxIntError(n) if *n as u128 == v) {
                        sink.report("kind-maxint", key.clone(), case(), format!("{:?}", e.kind()), format!("MaxIntError({})", v));
                    }
                    if e.input() == input && e.offset() != st {
                        sink.report("kind-maxint", format!("{}|offset", key), case(), format!("offset {}", e.offset()), format!("{} (start of the component)", st));
                    }
                }
                _ => {
                    if !matches!(e.kind(), SemverErrorKind::ParseIntError(_)) {
                        sink.report("kind-parseint", key, case(), format!("{:?}", e.kind()), "ParseIntError".into());
                    }
                }
            }
            return;
        }
        if k < 2 {
            if pos < b.len() && b[pos] == b'.' {
                pos += 1;
            } else {
                return;
            }
        }
    }
}

pub fn multiline_family() -> Vec<String> {
    let mut out = vec![];
    for seed in ["1.2.3", "1.2", "x", "1.2.3-a", "é1.2.3", "1.2.é", ">=1.2.3 <2", "foo", "900719925474100.0.0", "1.900719925474100.0", "1.2.900719925474100"] {
        for pre in ["", "\n", "\n\n", "a\n", "é\n", "\r\n", " \n ", "1.2.3\n", "\n\t"] {
            for post in ["", "\n", "\nfoo", " é", "\n\n1", ".x", "€"] {
                out.push(format!("{}{}{}", pre, seed, post));
            }
        }
    }
    out
}

/// over-long inputs (> MAX_LENGTH) that contain newlines and multi-byte characters at chosen
/// places: the only errors whose offset lies on a later line
pub fn long_multiline_family() -> Vec<String> {
    let mut out = vec![];
    for total in [257usize, 258, 300, 513] {
        for nl in [0usize, 1, 2, 100, 254, 255, 256] {
            for fill in ["2", "a", "é", " "] {
                for second in [None, Some(50usize), Some(255)] {
                    let mut s = String::new();
                    while s.len() < total {
                        if s.len() == nl || Some(s.len()) == second {
                            s.push('\n');
                        } else {
                            s.push_str(fill);
                        }
                    }
                    out.push(s.clone());
                    out.push(format!("1.2.3-{}", s));
                    out.push(format!("{}\r\n{}", &s[..s.char_indices().nth(10).map(|x| x.0).unwrap_or(0)], s));
                }
            }
        }
    }
    out
}

pub fn run_c17(tier: &str, sink: &Sink) -> BOut {
    let c = BCounters::default();
    let nv = n_for(tier, 'v');
    let nr = n_for(tier, 'r');
    let shapes: Mutex<std::collections::HashSet<String>> = Mutex::new(Default::default());
    let on_v = |s: &str| {
        c.strings.fetch_add(1, AO::Relaxed);
        if let Ok(Err(e)) = guarded(|| Version::parse(s)) {
            c.rejected.fetch_add(1, AO::Relaxed);
            let shape = format!("v|{:?}|{}|{}", std::mem::discriminant(e.kind()), e.offset(), s.len() as i64 - e.offset() as i64);
            let render = s.chars().count() + 2 <= nv || shapes.lock().unwrap().insert(shape);
            check_error("version", s, &e, render, sink, &c);
            check_version_kind(s, &e, sink);
            check_version_kind_prefix(s, &e, sink);
        }
    };
    let on_r = |s: &str| {
        c.strings.fetch_add(1, AO::Relaxed);
        if let Ok(Err(e)) = guarded(|| Range::parse(s)) {
            c.rejected.fetch_add(1, AO::Relaxed);
            let shape = format!("r|{:?}|{}|{}", std::mem::discriminant(e.kind()), e.offset(), s.len() as i64 - e.offset() as i64);
            let render = s.chars().count() + 2 <= nr || shapes.lock().unwrap().insert(shape);
            check_error("range", s, &e, render, sink, &c);
        }
    };
    walk(&SIGMA_V, nv, on_v);
    walk(&SIGMA_R, nr, on_r);
    let syms = edit_symbols();
    SEEDS.par_iter().for_each(|seed| {
        for e in edits1(seed, &syms) {
            on_v(&e);
            on_r(&e);
        }
    });
    for s in limit_versions() {
        on_v(&s);
        on_r(&s);
    }
    for s in multiline_family() {
        on_v(&s);
        on_r(&s);
    }
    // oversized components in incomplete / malformed cores
    for big in ["900719925474100", "18446744073709551615", "18446744073709551616", "99999999999999999999", "0900719925474100"] {
        for pre in ["", "v", "v ", " ", "1.", "1.2.", "v1.", "01.02."] {
            for post in ["", ".", ".2", ".2.", ".x", ".2.x", "-a", " ", ".2.3.4", "..", ".2.3-", "a"] {
                let s = format!("{}{}{}", pre, big, post);
                on_v(&s);
                on_r(&s);
            }
        }
    }
    for s in long_multiline_family() {
        on_v(&s);
        on_r(&s);
    }
    // multi-byte characters at every alignment around the length limit and inside short inputs
    for s in crate::engine_b6::multibyte_family() {
        on_v(&s);
        on_r(&s);
    }
    // a range without any valid comparator reports NoValidRanges
    for s in ["", " ", "foo", "~1.y", "1.2.3.4", "1.2beta4", ">=", "foo bar", "foo || bar", "||", " || ", "é", "\n", "1.2.3.4 || foo", ">= || <"] {
        c.strings.fetch_add(1, AO::Relaxed);
        match guarded(|| Range::parse(s)) {
            Ok(Err(e)) => {
                if !matches!(e.kind(), SemverErrorKind::NoValidRanges) {
                    sink.report("kind-novalid", format!("parser=range|input={:?}|", s), json!({"engine":"B","kind":"novalid","input":s}), format!("{:?}", e.kind()), "NoValidRanges".into());
                }
            }
            Ok(Ok(r)) => sink.report("kind-novalid", format!("parser=range|input={:?}|", s), json!({"engine":"B","kind":"novalid","input":s}), format!("Ok({})", bound_key(&r.verif_bounds())), "Err(NoValidRanges)".into()),
            Err(_) => {}
        }
    }
    let mut m = snap(&c);
    m.insert("distinct_error_shapes".into(), shapes.lock().unwrap().len() as u64);
    BOut { counters: m, samples: vec![json!({"parser":"version","input":"1.2.x"}), json!({"parser":"range","input":"\n\n~1.y"}), json!({"parser":"version","input":"1.2.900719925474100-a"})], n: nv }
}

// ---------------------------------------------------------- C13 (strings) ---

pub fn run_c13_strings(tier: &str, sink: &Sink, u: &Universe) -> BOut {
    let c = BCounters::default();
    let n = n_for(tier, 'r');
    let seen: Vec<Mutex<std::collections::HashSet<String>>> = (0..64).map(|_| Mutex::new(Default::default())).collect();
    walk(&SIGMA_R, n, |s| {
        c.strings.fetch_add(1, AO::Relaxed);
        if let Ok(Ok(r)) = guarded(|| Range::parse(s)) {
            c.accepted.fetch_add(1, AO::Relaxed);
            let key = bound_key(&r.verif_bounds());
            let shard = key.len() % 64;
            if !seen[shard].lock().unwrap().insert(key) {
                return; // the round trip is a function of the Range value; check each distinct value once
            }
            let within = within_bits(u, &intervals_of(&r));
            let Ok(sat) = real_sat_bits(u, &r) else { return };
            check_roundtrip(u, &r, &within, &sat, true, &mut |clause, w, obs, exp| {
                sink.report(clause, format!("text={:?}|v={}", s, w), json!({"engine":"B","kind":"range-text","input":s,"tier":tier}), obs, exp);
            });
        }
    });
    // wide family: ranges whose printed form is far beyond 256 bytes, from parse and from chains of
    // difference / intersect (depth up to 40), on a dedicated universe
    let wide = wide_family_c13(sink);
    let longtag = longtag_family_c13(sink);
    let distinct: u64 = seen.iter().map(|m| m.lock().unwrap().len() as u64).sum();
    let mut m = snap(&c);
    m.insert("distinct_range_values".into(), distinct + wide + longtag);
    m.insert("wide_family_values".into(), wide);
    m.insert("longtag_family_values".into(), longtag);
    BOut { counters: m, samples: vec![json!({"range_text": "^0 ||x"})], n }
}

pub fn wide_universe() -> Universe {
    let mut bvs = vec![];
    for i in 0..=81u64 {
        for t in ["", "a", "0.a"] {
            bvs.push(ver(i, 0, 0, t));
            bvs.push(ver(i, 1, 0, t));
            bvs.push(ver(i, 5, 0, t));
            bvs.push(ver(1, 0, i, t));
            bvs.push(ver(i, 0, 1, t));
        }
    }
    for n in [60usize, 120, 200, 240] {
        bvs.push(ver(1, 0, 0, &"a".repeat(n)));
        bvs.push(ver(1, 0, 0, &"b".repeat(n)));
        bvs.push(ver(2, 0, 0, &"a".repeat(n)));
    }
    let mut vs = critical_points(&bvs);
    vs.push(ver(99, 0, 0, ""));
    Universe::new(vs)
}

/// C13 on wide ranges. Returns the number of values checked.
pub fn wide_family_c13(sink: &Sink) -> u64 {
    let u = wide_universe();
    let mut n = 0u64;
    let mut check = |r: &Range, parsed: bool, how: &str| {
        let within = within_bits(&u, &intervals_of(r));
        let Ok(sat) = real_sat_bits(&u, r) else { return };
        check_roundtrip(&u, r, &within, &sat, parsed, &mut |clause, w, obs, exp| {
            sink.report(clause, format!("wide={}|v={}", how, w), json!({"engine":"B","kind":"range-wide","how":how}), obs, exp);
        });
    };
    for t in crate::engine_a::wide_texts() {
        if let Ok(Ok(r)) = guarded(|| Range::parse(&t)) {
            n += 1;
            let how = format!("parse:{}", if t.len() > 60 { format!("{}...({} bytes)", &t[..60], t.len()) } else { t.clone() });
            check(&r, true, &how);
        } else {
            sink.report("reparse", format!("wide=parse:{}...({} bytes)|v=-", &t[..t.len().min(60)], t.len()), json!({"engine":"B","kind":"range-wide","how":"parse"}), "the wide text does not parse".into(), "Ok (no length limit on range texts)".into());
        }
    }
    // chains: punch k exact versions out of one interval, then intersect the result with a multi-alternative range
    if let (Ok(base), Ok(cut)) = (Range::parse(">=1.0.0 <60.0.0"), Range::parse("1.x || 3.x || 5.x || 7.x || 9.x || 11.x || 13.x || 15.x || 17.x || 19.x || 21.x || 23.x || 25.x || 27.x || 29.x || 31.x")) {
        let mut cur = base;
        for i in 2..=40u64 {
            let Ok(hole) = Range::parse(format!("{}.0.0", i)) else { break };
            match guarded(|| cur.difference(&hole)) {
                Ok(Some(next)) => cur = next,
                _ => break,
            }
            n += 1;
            check(&cur, false, &format!("chain:(>=1.0.0 <60.0.0) minus 2.0.0 .. {}.0.0", i));
            if i % 8 == 0 {
                if let Ok(Some(x)) = guarded(|| cur.intersect(&cut)) {
                    n += 1;
                    check(&x, false, &format!("chain:((>=1.0.0 <60.0.0) minus 2.0.0 .. {}.0.0) & odd majors", i));
                }
            }
        }
    }
    n
}

pub const LONG_TAGS: [&str; 8] = ["a.b.1", "rc.1.5", "a.b.c.d", "0.0.0", "1.2.3.4.5.6", "a.0.b.1", "x.y.z.10", "rc.1.9"];

/// C13 on ranges whose bounds carry tags of 3..6 identifiers (a printer that loses or merges later
/// identifiers; seeded change C13-6), from parse and from one set operation between two of them. The
/// universe holds, besides the critical points, every version whose tag is a prefix of a bound's tag.
pub fn longtag_family_c13(sink: &Sink) -> u64 {
    let mut texts: Vec<String> = vec![];
    for t in LONG_TAGS {
        for op in [">=", ">", "<", "<=", "", "^", "~"] {
            texts.push(format!("{}1.2.3-{}", op, t));
        }
        for t2 in LONG_TAGS {
            if t < t2 {
                texts.push(format!("1.2.3-{} - 1.2.4-{}", t, t2));
                texts.push(format!(">=1.2.3-{} <1.2.3-{}", t, t2));
                texts.push(format!(">1.2.3-{} <=1.2.3-{}", t, t2));
                texts.push(format!(">1.2.3-{} <=1.2.3-{}", t2, t));
                texts.push(format!("<1.2.3-{} || >=2.0.0-{}", t, t2));
            }
        }
    }
    let mut bvs = vec![ver(1, 2, 3, ""), ver(1, 2, 4, ""), ver(2, 0, 0, "")];
    for t in LONG_TAGS {
        let parts: Vec<&str> = t.split('.').collect();
        for k in 1..=parts.len() {
            let pre = parts[..k].join(".");
            for (a, b, c) in [(1, 2, 3), (1, 2, 4), (2, 0, 0)] {
                bvs.push(ver(a, b, c, &pre));
            }
        }
    }
    let u = Universe::new(critical_points(&bvs));
    let mut n = 0u64;
    let mut check = |r: &Range, parsed: bool, how: &str| {
        let within = within_bits(&u, &intervals_of(r));
        let Ok(sat) = real_sat_bits(&u, r) else { return };
        check_roundtrip(&u, r, &within, &sat, parsed, &mut |clause, w, obs, exp| {
            sink.report(clause, format!("longtag={}|v={}", how, w), json!({"engine":"B","kind":"range-longtag","how":how}), obs, exp);
        });
    };
    let mut parsed: Vec<(String, Range)> = vec![];
    for t in &texts {
        crate::report::beat();
        if let Ok(Ok(r)) = guarded(|| Range::parse(t)) {
            n += 1;
            check(&r, true, &format!("parse:{}", t));
            parsed.push((t.clone(), r));
        }
        // (a text whose two comparators do not meet is rightly refused; which texts parse is C01's business)
    }
    // one set operation between every ordered pair of the single-comparator texts
    let singles: Vec<&(String, Range)> = parsed.iter().filter(|(t, _)| !t.contains(' ')).collect();
    for (ta, a) in &singles {
        for (tb, b) in &singles {
            crate::report::beat();
            if let Ok(Some(x)) = guarded(|| a.intersect(b)) {
                n += 1;
                check(&x, false, &format!("({}) & ({})", ta, tb));
            }
            if let Ok(Some(x)) = guarded(|| a.difference(b)) {
                n += 1;
                check(&x, false, &format!("({}) minus ({})", ta, tb));
            }
        }
    }
    n
}

// ------------------------------------------------------------------ replay ---

pub fn replay(prop: &str, case: &Value, sink: &Sink) {
    let c = BCounters::default();
    let input = case["input"].as_str().unwrap_or("");
    match (prop, case["kind"].as_str().unwrap_or("")) {
        ("C05", "version") => check_c05(input, sink, &c, if input.len() > 200 { "limit" } else { "sigma" }),
        ("C12", "version-value") => {
            let v = verb(case["major"].as_u64().unwrap(), case["minor"].as_u64().unwrap(), case["patch"].as_u64().unwrap(), case["pre"].as_str().unwrap(), case["build"].as_str().unwrap());
            let origin = case["origin"].as_str().unwrap_or("built");
            if origin == "built" || origin == "built-limit" {
                check_c12_value(&v, origin, sink);
            } else if let Ok(Ok(v)) = guarded(|| Version::parse(origin)) {
                check_c12_value(&v, origin, sink);
            }
        }
        ("C17", "error") => {
            let which = case["parser"].as_str().unwrap_or("version");
            let render = case["render"].as_bool().unwrap_or(true);
            if which == "version" {
                if let Ok(Err(e)) = guarded(|| Version::parse(input)) {
                    check_error("version", input, &e, render, sink, &c);
                    check_error("version", input, &e, true, sink, &c);
                    check_version_kind(input, &e, sink);
                    check_version_kind_prefix(input, &e, sink);
                }
            } else if let Ok(Err(e)) = guarded(|| Range::parse(input)) {
                check_error("range", input, &e, render, sink, &c);
                check_error("range", input, &e, true, sink, &c);
            }
        }
        ("C17", "novalid") => match guarded(|| Range::parse(input)) {
            Ok(Err(e)) => {
                if !matches!(e.kind(), SemverErrorKind::NoValidRanges) {
                    sink.report("kind-novalid", format!("parser=range|input={:?}|", input), case.clone(), format!("{:?}", e.kind()), "NoValidRanges".into());
                }
            }
            Ok(Ok(_)) => sink.report("kind-novalid", format!("parser=range|input={:?}|", input), case.clone(), "Ok".into(), "Err(NoValidRanges)".into()),
            Err(_) => {}
        },
        ("C13", "range-wide") => {
            let _ = wide_family_c13(sink);
        }
        ("C13", "range-longtag") => {
            let _ = longtag_family_c13(sink);
        }
        ("C13", "range-text") => {
            let tier = case["tier"].as_str().unwrap_or("quick");
            let e = crate::engine_a::EngA::new(tier);
            if let Ok(Ok(r)) = guarded(|| Range::parse(input)) {
                let within = within_bits(&e.u, &intervals_of(&r));
                if let Ok(sat) = real_sat_bits(&e.u, &r) {
                    check_roundtrip(&e.u, &r, &within, &sat, true, &mut |clause, w, obs, exp| {
                        sink.report(clause, format!("text={:?}|v={}", input, w), case.clone(), obs, exp);
                    });
                }
            }
        }
        _ => eprintln!("replay: unknown case for engine B"),
    }
}
