//! Engine C — explicit-state exploration of the range algebra.
//!
//! State = a real `Range`; canonical key = its ordered interval list read
//! through the `verif-hooks` accessor.  Transitions = intersect / difference
//! for every ordered pair of reached states (+ reparse).  Every transition is
//! executed on the real code and compared with bitset arithmetic over an exact
//! critical-point universe (DESIGN 2.2).

use crate::refmodel::*;
use crate::report::*;
use crate::universe::*;
use nodejs_semver::{Range, VerifBound, Version};
use rayon::prelude::*;
use serde_json::{json, Value};
use std::collections::{HashMap, HashSet};
use std::sync::Mutex;

#[derive(Clone, Debug)]
pub enum Origin {
    Leaf(String),
    Any,
    Int(usize, usize),
    Diff(usize, usize),
}

pub struct St {
    pub r: Range,
    pub origin: Origin,
    pub key: String,
    pub ivs: Vec<Interval>,
    pub within: Bits,
    pub sat: Bits,    // real satisfies() on the universe
    pub refsat: Bits, // bounds-based reference gate
    pub has_full: bool,
    pub depth: u8,
}

#[derive(Clone, Copy, PartialEq, Eq)]
pub struct Mask {
    pub c03: bool,
    pub c06: bool,
    pub c07: bool,
    pub c08: bool,
    pub c09: bool,
    pub c10: bool,
    pub c11: bool,
    pub c13: bool,
    pub c15: bool,
}

impl Mask {
    pub fn none() -> Mask {
        Mask { c03: false, c06: false, c07: false, c08: false, c09: false, c10: false, c11: false, c13: false, c15: false }
    }
    pub fn of(p: &str) -> Mask {
        let mut m = Mask::none();
        match p {
            "C03" => m.c03 = true,
            "C06" => m.c06 = true,
            "C07" => m.c07 = true,
            "C08" => m.c08 = true,
            "C09" => m.c09 = true,
            "C10" => m.c10 = true,
            "C11" => m.c11 = true,
            "C13" => m.c13 = true,
            "C15" => m.c15 = true,
            _ => {}
        }
        m
    }
}

pub fn to_interval(b: &(VerifBound, VerifBound)) -> Interval {
    let lo = match &b.0 {
        VerifBound::Unbounded => Cut::NegInf,
        VerifBound::Including(v) => Cut::At(v.clone(), 0),
        VerifBound::Excluding(v) => Cut::At(v.clone(), 1),
    };
    let hi = match &b.1 {
        VerifBound::Unbounded => Cut::PosInf,
        VerifBound::Including(v) => Cut::At(v.clone(), 1),
        VerifBound::Excluding(v) => Cut::At(v.clone(), 0),
    };
    Interval { lo, hi }
}

pub fn intervals_of(r: &Range) -> Vec<Interval> {
    r.verif_bounds().iter().map(to_interval).collect()
}

pub fn bound_key(bs: &[(VerifBound, VerifBound)]) -> String {
    let mut s = String::new();
    for (i, (l, u)) in bs.iter().enumerate() {
        if i > 0 {
            s.push_str(" || ");
        }
        match l {
            VerifBound::Unbounded => s.push_str("(-inf"),
            VerifBound::Including(v) => {
                s.push('[');
                s.push_str(&vtext_full(v))
            }
            VerifBound::Excluding(v) => {
                s.push('(');
                s.push_str(&vtext_full(v))
            }
        }
        s.push(',');
        match u {
            VerifBound::Unbounded => s.push_str("+inf)"),
            VerifBound::Including(v) => {
                s.push_str(&vtext_full(v));
                s.push(']')
            }
            VerifBound::Excluding(v) => {
                s.push_str(&vtext_full(v));
                s.push(')')
            }
        }
    }
    s
}

pub fn within_bits(u: &Universe, ivs: &[Interval]) -> Bits {
    let mut b = u.zero();
    for iv in ivs {
        let (lo, hi) = (u.cut_index(&iv.lo), u.cut_index(&iv.hi));
        if lo < hi {
            b.set_range(lo, hi);
        }
    }
    b
}

pub fn refsat_bits(u: &Universe, ivs: &[Interval]) -> Bits {
    let mut b = u.zero();
    for iv in ivs {
        b.or_assign(&u.interval_sat_bits(iv));
    }
    b
}

pub fn real_sat_bits(u: &Universe, r: &Range) -> Result<Bits, String> {
    guarded(|| {
        let mut b = u.zero();
        for (i, v) in u.vs.iter().enumerate() {
            if r.satisfies(v) {
                b.set(i);
            }
        }
        b
    })
}

/// cut-wise overlap: some pair of alternatives has max(lo) < min(hi)
pub fn overlap_cuts(a: &[Interval], b: &[Interval]) -> bool {
    use std::cmp::Ordering::*;
    for x in a {
        for y in b {
            let lo = if cut_cmp(&x.lo, &y.lo) == Less { &y.lo } else { &x.lo };
            let hi = if cut_cmp(&x.hi, &y.hi) == Greater { &y.hi } else { &x.hi };
            if cut_cmp(lo, hi) == Less {
                return true;
            }
        }
    }
    false
}

#[derive(Default, Clone, Debug)]
pub struct Counters {
    pub transitions: u64,
    pub pairs: u64,
    pub nontrivial_pairs: u64,
    pub int_none: u64,
    pub int_some: u64,
    pub diff_none: u64,
    pub diff_some: u64,
    pub diff_two_remainders: u64,
    pub any_true: u64,
    pub any_false: u64,
    pub all_true: u64,
    pub all_false: u64,
    pub gap_cases: u64,
    pub tie_pairs: u64,
    pub multi_alt_b: u64,
    pub new_states: u64,
    pub clause_evals: u64,
    pub invented_bounds: u64,
    pub triples: u64,
    pub probes: u64,
    pub max_alts: u64,
}

impl Counters {
    pub fn merge(mut self, o: Counters) -> Counters {
        self.transitions += o.transitions;
        self.pairs += o.pairs;
        self.nontrivial_pairs += o.nontrivial_pairs;
        self.int_none += o.int_none;
        self.int_some += o.int_some;
        self.diff_none += o.diff_none;
        self.diff_some += o.diff_some;
        self.diff_two_remainders += o.diff_two_remainders;
        self.any_true += o.any_true;
        self.any_false += o.any_false;
        self.all_true += o.all_true;
        self.all_false += o.all_false;
        self.gap_cases += o.gap_cases;
        self.tie_pairs += o.tie_pairs;
        self.multi_alt_b += o.multi_alt_b;
        self.new_states += o.new_states;
        self.clause_evals += o.clause_evals;
        self.invented_bounds += o.invented_bounds;
        self.triples += o.triples;
        self.probes += o.probes;
        self.max_alts = self.max_alts.max(o.max_alts);
        self
    }
    pub fn to_json(&self) -> Value {
        json!({
            "pairs": self.pairs, "transitions": self.transitions, "nontrivial_pairs": self.nontrivial_pairs,
            "intersect_none": self.int_none, "intersect_some": self.int_some,
            "difference_none": self.diff_none, "difference_some": self.diff_some,
            "difference_two_or_more_alternatives": self.diff_two_remainders,
            "allows_any_true": self.any_true, "allows_any_false": self.any_false,
            "allows_all_true": self.all_true, "allows_all_false": self.all_false,
            "gap_cases_either_answer": self.gap_cases, "pairs_sharing_a_bound_version": self.tie_pairs,
            "pairs_with_multi_alternative_b": self.multi_alt_b,
            "new_states_checked": self.new_states, "clause_evaluations": self.clause_evals,
            "invented_bound_versions": self.invented_bounds, "triples": self.triples,
            "allows_any_probes": self.probes, "max_alternatives_in_a_state": self.max_alts,
        })
    }
}

pub struct EngC {
    pub tier: String,
    pub u: Universe,
    pub states: Vec<St>,
    pub index: HashMap<String, usize>,
    pub n_leaves: usize,
    pub bv_texts: HashSet<String>,
    pub probes: Vec<Option<Range>>, // exact range of every universe version
    pub probes3: Vec<St>,            // three-alternative operands
    pub seen2: Vec<Mutex<HashSet<u64>>>,
}

fn fnv64(s: &str) -> u64 {
    let mut h: u64 = 0xcbf29ce484222325;
    for b in s.bytes() {
        h ^= b as u64;
        h = h.wrapping_mul(0x100000001b3);
    }
    h
}

pub fn leaf_texts(tier: &str) -> Vec<String> {
    if tier == "bits" || tier == "bits-all" {
        // bit-boundary family: a component of 2^k + 1 for every k (packing / truncation slips show
        // at some power of two) next to small neighbours; one-sided leaves only
        let mut out: Vec<String> = vec![];
        for t in ["<=1.1.0", "<1.1.0", "<=2.0.0", "<2.0.0", ">=1.0.0", "<=1.0.5", ">=1.0.0-a", "<2.0.0-b"] {
            out.push(t.to_string());
        }
        let ks: Vec<u32> = if tier == "bits-all" { (2..=49).collect() } else { vec![2, 7, 8, 15, 16, 20, 21, 24, 28, 31, 32, 33, 40, 48, 49] };
        for k in ks {
            for d in [0u64, 1, 2] {
                let p = (1u64 << k) - 1 + d; // 2^k - 1, 2^k, 2^k + 1
                if p > MAX_SAFE {
                    continue;
                }
                for t in [format!(">=1.0.{}", p), format!("<1.0.{}", p), format!(">=1.{}.0", p), format!("<=1.{}.7", p), format!(">={}.0.0-a", p)] {
                    out.push(t);
                }
            }
        }
        for t in ["<=1.1.7", ">=2.0.7", "<2.0.7", ">=1.1.0 <2.0.0", ">=2.0.0-a"] {
            out.push(t.to_string());
        }
        return out;
    }
    let (bv, tv): (Vec<&str>, Vec<&str>) = match tier {
        "thorough" => (
            vec!["1.0.0", "1.0.1", "2.0.0", "1.0.0-a", "1.0.0-a.0", "2.0.0-0", "1.0.0-0.a", "1.0.1-0"],
            vec!["1.0.0", "2.0.0", "1.0.0-a"],
        ),
        "tiny" => (vec!["1.0.0", "2.0.0"], vec!["1.0.0"]),
        // components above 2^32 / 2^33 next to small ones, and prerelease tags whose numeric and
        // textual orders disagree (9 < 10 < 1a by SemVer; "10" < "1a" < "9" as text)
        "exotic" => (
            // ... plus a release, the next patch and the `-0` floor of that next patch (the bound that
            // caret / tilde / x-ranges generate: nothing lies between 1.0.0 and 1.0.1-0)
            vec!["1.0.4294967297", "1.1.0", "1.8589934593.0", "2.0.0", "1.0.0-9", "1.0.0-10", "1.0.0-1a", "1.0.1", "1.0.0", "1.0.1-0"],
            vec!["1.1.0"],
        ),
        // bounds whose tags have three or four identifiers and share their first two, or their first
        // and last (an order that looks at a fixed number of identifiers, or only at the ends, ties
        // them; C07-8, C10-8)
        "longtag" => (
            vec!["1.0.0", "2.0.0", "1.0.0-a.0", "1.0.0-a.0.1", "1.0.0-a.0.2", "1.0.0-a.0.1.0", "1.0.0-a.1.1", "1.0.0-a.b.1"],
            vec!["1.0.0-a.0.1"],
        ),
        _ => (vec!["1.0.0", "2.0.0", "1.0.0-a", "2.0.0-0.a"], vec!["1.0.0", "2.0.0"]),
    };
    let mut out: Vec<String> = vec![];
    for v in &bv {
        for op in ["<", "<=", ">", ">=", ""] {
            out.push(format!("{}{}", op, v));
        }
    }
    // order bv by reference order for a<b pairs
    let mut sorted: Vec<(Version, &str)> = bv
        .iter()
        .map(|t| {
            let mut it = t.splitn(2, '-');
            let core: Vec<u64> = it.next().unwrap().split('.').map(|x| x.parse().unwrap()).collect();
            let pre = it.next().unwrap_or("");
            (ver(core[0], core[1], core[2], pre), *t)
        })
        .collect();
    sorted.sort_by(|a, b| rcmp(&a.0, &b.0));
    for i in 0..sorted.len() {
        for j in (i + 1)..sorted.len() {
            for lo in [">", ">="] {
                for hi in ["<", "<="] {
                    out.push(format!("{}{} {}{}", lo, sorted[i].1, hi, sorted[j].1));
                }
            }
        }
    }
    out.push("*".to_string());
    // bounds carrying build metadata (must never influence any answer; Version == ignores it)
    for t in [">=1.0.0+b", "1.0.0+b", "<=2.0.0+b.1", ">1.0.0+b <2.0.0+c"] {
        out.push(t.to_string());
    }
    // ... and bounds carrying a prerelease tag AND build metadata (printing order; C13-9)
    for t in [">=1.0.0-a+b", "1.0.0-a+b.1", "<2.0.0-0.a+b-c"] {
        out.push(t.to_string());
    }
    if tier == "exotic" {
        // all-digit identifiers that do not fit u64 (kept as text by the parser), with and without
        // leading zeros and of different lengths, next to one that fits and an alphanumeric one
        // (Ord/Eq disagreements and intransitive orders among them; C02-9, C09-9)
        for tag in ["99999999999999999999", "099999999999999999999", "100000000000000000000", "18446744073709551615", "5x"] {
            for op in ["<", "<=", ">", ">=", ""] {
                out.push(format!("{}1.0.0-{}", op, tag));
            }
        }
    }
    // spellings whose unusual constructor path must end in an ordinary value: an alternative written
    // the wrong way round or contradictory is dropped (a constructor that skips the validation of
    // BoundSet::new would keep an inverted interval; C09-7)
    for t in ["2.0.0 - 1.0.0 || 1.0.0", "1.0.0 || 2.0.0 - 1.0.0", "1.0.0 - 1.0.0-a || 2.0.0", "2 - 1 || 2.0.0", ">=2.0.0 <1.0.0 || 1.0.0", ">1.0.0 <1.0.0 || 2.0.0", "1.0.0 - 2.0.0", "1.0.0-a - 2.0.0",
        // a set contradicting itself at one version, every kind combination and order (C09-11)
        ">1.0.0 <=1.0.0 || 2.0.0", "<=1.0.0 >1.0.0 || 2.0.0", ">=1.0.0 <1.0.0 || 2.0.0", "<1.0.0 >=1.0.0 || 2.0.0", "1.0.0 >1.0.0 || 2.0.0", "1.0.0 <1.0.0 || 2.0.0", "2.0.0 || >1.0.0-a <=1.0.0-a"] {
        out.push(t.to_string());
    }
    let mut one: Vec<String> = vec![];
    for v in &tv {
        for op in ["<", "<=", ">", ">=", ""] {
            one.push(format!("{}{}", op, v));
        }
    }
    for i in 0..one.len() {
        for j in (i + 1)..one.len() {
            out.push(format!("{} || {}", one[i], one[j]));
            // a few reversed orders (alternative order must not matter)
            if (i + j) % 4 == 0 {
                out.push(format!("{} || {}", one[j], one[i]));
            }
        }
    }
    out
}

/// three-alternative operands in every order (used as operands against every leaf, both sides;
/// not closed under further operations)
pub fn probe3_texts(tier: &str) -> Vec<String> {
    if tier == "exotic" || tier == "tiny" || tier == "bits" || tier == "bits-all" || tier == "longtag" {
        return vec![];
    }
    let mut base: Vec<String> = vec![];
    for v in ["1.0.0", "2.0.0", "3.0.0"] {
        for op in ["", "<", ">="] {
            base.push(format!("{}{}", op, v));
        }
    }
    let mut out = vec![];
    for a in 0..base.len() {
        for b in 0..base.len() {
            for c in 0..base.len() {
                if a != b && b != c && a != c {
                    out.push(format!("{} || {} || {}", base[a], base[b], base[c]));
                }
            }
        }
    }
    // two-alternative operands with prerelease-tagged bounds in both orders (a tagged alternative may
    // lie inside an untagged wider one by bounds and still admit more)
    let mut tagged: Vec<String> = vec![];
    for v in ["1.0.0", "1.0.0-a", "2.0.0"] {
        for op in ["", "<", "<=", ">", ">="] {
            tagged.push(format!("{}{}", op, v));
        }
    }
    tagged.push(">=1.0.0-a <1.0.0".to_string());
    tagged.push(">=1.0.0-a <2.0.0".to_string());
    tagged.push(">1.0.0-a <=1.0.0".to_string());
    for a in 0..tagged.len() {
        for b in 0..tagged.len() {
            if a != b && (tagged[a].contains("-a") || tagged[b].contains("-a")) {
                out.push(format!("{} || {}", tagged[a], tagged[b]));
            }
        }
    }
    out
}

impl EngC {
    pub fn expr_json(&self, i: usize) -> Value {
        match &self.states[i].origin {
            Origin::Leaf(t) => json!({ "parse": t }),
            Origin::Any => json!({"any": true}),
            Origin::Int(a, b) => json!({"intersect": [self.expr_json(*a), self.expr_json(*b)]}),
            Origin::Diff(a, b) => json!({"difference": [self.expr_json(*a), self.expr_json(*b)]}),
        }
    }

    pub fn expr_text(&self, i: usize) -> String {
        match &self.states[i].origin {
            Origin::Leaf(t) => format!("`{}`", t),
            Origin::Any => "any()".into(),
            Origin::Int(a, b) => format!("({} & {})", self.expr_text(*a), self.expr_text(*b)),
            Origin::Diff(a, b) => format!("({} \\ {})", self.expr_text(*a), self.expr_text(*b)),
        }
    }

    pub fn make_state(u: &Universe, r: Range, origin: Origin, depth: u8) -> Result<St, String> {
        let bs = guarded(|| r.verif_bounds())?;
        let ivs: Vec<Interval> = bs.iter().map(to_interval).collect();
        let key = bound_key(&bs);
        let within = within_bits(u, &ivs);
        let refsat = refsat_bits(u, &ivs);
        let sat = real_sat_bits(u, &r)?;
        let has_full = ivs
            .iter()
            .any(|iv| matches!(iv.lo, Cut::NegInf) && matches!(iv.hi, Cut::PosInf));
        Ok(St { r, origin, key, ivs, within, sat, refsat, has_full, depth })
    }

    /// Build universe + leaf states for a tier.
    pub fn new(tier: &str) -> EngC {
        let texts = leaf_texts(tier);
        let mut parsed: Vec<(String, Range)> = vec![];
        for t in &texts {
            match guarded(|| Range::parse(t)) {
                Ok(Ok(r)) => parsed.push((t.clone(), r)),
                _ => {} // leaves that do not parse are C01's business; counted by caller
            }
        }
        let p3: Vec<(String, Range)> = probe3_texts(tier).into_iter().filter_map(|t| guarded(|| Range::parse(&t)).ok().and_then(|r| r.ok()).map(|r| (t, r))).collect();
        let mut bvs: Vec<Version> = vec![];
        for (_, r) in parsed.iter().chain(p3.iter()) {
            for (l, h) in r.verif_bounds() {
                for b in [l, h] {
                    match b {
                        VerifBound::Including(v) | VerifBound::Excluding(v) => bvs.push(v),
                        _ => {}
                    }
                }
            }
        }
        let k = if tier == "thorough" { 3 } else { 2 };
        let mut vs = grid(k, &GRID_TAGS);
        vs.extend(critical_points(&bvs));
        vs.push(ver(k + 2, 0, 0, ""));
        let u = Universe::new(vs);
        let bv_texts: HashSet<String> = bvs.iter().map(vtext).collect();
        let mut e = EngC {
            tier: tier.to_string(),
            u,
            states: vec![],
            index: HashMap::new(),
            n_leaves: 0,
            bv_texts,
            probes: vec![],
            probes3: vec![],
            seen2: (0..256).map(|_| Mutex::new(HashSet::new())).collect(),
        };
        for (t, r) in parsed {
            if let Ok(st) = EngC::make_state(&e.u, r, Origin::Leaf(t), 0) {
                e.add_state(st);
            }
        }
        if let Ok(st) = EngC::make_state(&e.u, Range::any(), Origin::Any, 0) {
            e.add_state(st);
        }
        e.n_leaves = e.states.len();
        for (t, r) in p3 {
            if let Ok(st) = EngC::make_state(&e.u, r, Origin::Leaf(t), 0) {
                e.probes3.push(st);
            }
        }
        // probes: exact range of every universe version (only if it parses to [v,v])
        e.probes = e
            .u
            .vs
            .iter()
            .map(|v| {
                let t = vtext(v);
                match guarded(|| Range::parse(&t)) {
                    Ok(Ok(r)) => {
                        let iv = intervals_of(&r);
                        if iv.len() == 1 {
                            if let (Cut::At(a, 0), Cut::At(b, 1)) = (&iv[0].lo, &iv[0].hi) {
                                if same_fields(a, v) && same_fields(b, v) {
                                    return Some(r);
                                }
                            }
                        }
                        None
                    }
                    _ => None,
                }
            })
            .collect();
        e
    }

    fn add_state(&mut self, st: St) -> usize {
        if let Some(i) = self.index.get(&st.key) {
            return *i;
        }
        let i = self.states.len();
        self.index.insert(st.key.clone(), i);
        self.states.push(st);
        i
    }

    /// Rebuild a state from a replay expression.
    pub fn eval_expr(&self, e: &Value) -> Result<Option<Range>, String> {
        if let Some(t) = e.get("parse").and_then(|x| x.as_str()) {
            return guarded(|| Range::parse(t).ok());
        }
        if e.get("any").is_some() {
            return Ok(Some(Range::any()));
        }
        for (name, isint) in [("intersect", true), ("difference", false)] {
            if let Some(arr) = e.get(name).and_then(|x| x.as_array()) {
                let a = self.eval_expr(&arr[0])?;
                let b = self.eval_expr(&arr[1])?;
                let (Some(a), Some(b)) = (a, b) else { return Ok(None) };
                return guarded(|| if isint { a.intersect(&b) } else { a.difference(&b) });
            }
        }
        Err("bad expression".into())
    }

    pub fn state_from_expr(&self, e: &Value) -> Result<St, String> {
        let r = self.eval_expr(e)?.ok_or("expression evaluates to None")?;
        let origin = if let Some(t) = e.get("parse").and_then(|x| x.as_str()) {
            Origin::Leaf(t.to_string())
        } else if e.get("any").is_some() {
            Origin::Any
        } else {
            Origin::Int(0, 0) // derived (exact provenance irrelevant for the checks)
        };
        EngC::make_state(&self.u, r, origin, 1)
    }

    fn is_new2(&self, key: &str) -> bool {
        if self.index.contains_key(key) {
            return false;
        }
        let h = fnv64(key);
        self.seen2[(h & 255) as usize].lock().unwrap().insert(h)
    }

    pub fn distinct_depth2(&self) -> u64 {
        self.seen2.iter().map(|m| m.lock().unwrap().len() as u64).sum()
    }
}

/// Information about an operation result.
pub struct Res {
    pub r: Option<Range>,
    pub key: String,
    pub ivs: Vec<Interval>,
    pub within: Bits,
    pub sat: Bits, // real if `full`, else reference gate on the result's bounds
    pub invented: Vec<Version>,
}

impl EngC {
    pub fn res_of(&self, r: Option<Range>, full: bool) -> Result<Res, String> {
        match r {
            None => Ok(Res {
                r: None,
                key: "None".into(),
                ivs: vec![],
                within: self.u.zero(),
                sat: self.u.zero(),
                invented: vec![],
            }),
            Some(r) => {
                let bs = guarded(|| r.verif_bounds())?;
                let ivs: Vec<Interval> = bs.iter().map(to_interval).collect();
                let key = bound_key(&bs);
                let within = within_bits(&self.u, &ivs);
                let sat = if full { real_sat_bits(&self.u, &r)? } else { refsat_bits(&self.u, &ivs) };
                let mut invented = vec![];
                for iv in &ivs {
                    for b in [iv.lo_version(), iv.hi_version()].into_iter().flatten() {
                        if !self.bv_texts.contains(&vtext(b)) {
                            invented.push(b.clone());
                        }
                    }
                }
                Ok(Res { r: Some(r), key, ivs, within, sat, invented })
            }
        }
    }
}

pub fn contains_any(ivs: &[Interval], v: &Version) -> bool {
    ivs.iter().any(|iv| iv.contains(v))
}

pub struct PairCtx<'a> {
    pub e: &'a EngC,
    pub sink: &'a Sink,
    pub mask: Mask,
    pub full: bool, // real satisfies() on results (depth<=1) vs reference gate on result bounds
    pub register: bool,
}

fn wit(u: &Universe, x: &Bits, y: &Bits) -> String {
    match x.first_diff(y) {
        Some(i) => vtext(&u.vs[i]),
        None => "-".into(),
    }
}

fn first_of(u: &Universe, x: &Bits) -> String {
    match x.first() {
        Some(i) => vtext(&u.vs[i]),
        None => "-".into(),
    }
}

impl<'a> PairCtx<'a> {
    fn rep(&self, prop_is: bool, clause: &str, ka: &str, kb: &str, w: &str, ea: &Value, eb: &Value, obs: String, exp: String) {
        if !prop_is {
            return;
        }
        let key = format!("A={}|B={}|v={}", ka, kb, w);
        self.sink.report(
            clause,
            key,
            json!({"engine": "C", "kind": "pair", "a": ea, "b": eb, "full": self.full, "tier": self.e.tier}),
            obs,
            exp,
        );
    }

    /// All pair-level clauses for (a,b). `ia`/`ib` are indices if a,b are stored states (for
    /// replay expressions); ea/eb are their expressions.
    pub fn check_pair(&self, a: &St, b: &St, same: bool, a_before_b: bool, ea: &dyn Fn() -> Value, eb: &dyn Fn() -> Value, c: &mut Counters) -> (Option<Res>, Option<Res>) {
        crate::report::beat();
        let e = self.e;
        let u = &e.u;
        let m = self.mask;
        c.pairs += 1;
        let andb = a.within.and(&b.within);
        let overlap_v = !andb.is_empty();
        let overlap_c = overlap_cuts(&a.ivs, &b.ivs);
        if overlap_v && andb != a.within && andb != b.within {
            c.nontrivial_pairs += 1;
        }
        if overlap_c && !overlap_v {
            c.gap_cases += 1;
        }
        if b.ivs.len() > 1 {
            c.multi_alt_b += 1;
        }
        {
            // tie: the two operands share a bound version
            let mut tie = false;
            'o: for x in &a.ivs {
                for bx in [x.lo_version(), x.hi_version()].into_iter().flatten() {
                    for y in &b.ivs {
                        for by in [y.lo_version(), y.hi_version()].into_iter().flatten() {
                            if req(bx, by) {
                                tie = true;
                                break 'o;
                            }
                        }
                    }
                }
            }
            if tie {
                c.tie_pairs += 1;
            }
        }
        let (ka, kb) = (&a.key, &b.key);
        let lazy_ea = || ea();
        let lazy_eb = || eb();
        macro_rules! rep {
            ($on:expr, $clause:expr, $w:expr, $obs:expr, $exp:expr) => {
                if $on {
                    self.rep(true, $clause, ka, kb, &$w, &lazy_ea(), &lazy_eb(), $obs, $exp)
                }
            };
        }

        // the state space is the same for every property: both operations always run
        let need_int = true;
        let need_diff = true;
        // ---- intersect
        let mut ri: Option<Res> = None;
        if need_int {
            c.transitions += 1;
            match guarded(|| a.r.intersect(&b.r)).and_then(|r| e.res_of(r, self.full)) {
                Ok(res) => {
                    if res.r.is_some() { c.int_some += 1 } else { c.int_none += 1 }
                    c.max_alts = c.max_alts.max(res.ivs.len() as u64);
                    ri = Some(res);
                }
                Err(msg) => {
                    rep!(m.c06, "panic:intersect", "-".to_string(), format!("panic: {}", msg), "returns".into());
                    rep!(m.c07, "panic", "-".to_string(), format!("panic: {}", msg), "returns".into());
                    rep!(m.c15, "panic:intersect", "-".to_string(), format!("panic: {}", msg), "returns".into());
                }
            }
        }
        // ---- difference
        let mut rd: Option<Res> = None;
        if need_diff {
            c.transitions += 1;
            match guarded(|| a.r.difference(&b.r)).and_then(|r| e.res_of(r, self.full)) {
                Ok(res) => {
                    if res.r.is_some() { c.diff_some += 1 } else { c.diff_none += 1 }
                    if res.ivs.len() >= 2 { c.diff_two_remainders += 1 }
                    c.max_alts = c.max_alts.max(res.ivs.len() as u64);
                    rd = Some(res);
                }
                Err(msg) => {
                    rep!(m.c06, "panic:difference", "-".to_string(), format!("panic: {}", msg), "returns".into());
                    rep!(m.c08, "panic", "-".to_string(), format!("panic: {}", msg), "returns".into());
                    rep!(m.c15, "panic:difference", "-".to_string(), format!("panic: {}", msg), "returns".into());
                }
            }
        }
        let rel = &u.rel;
        let pre = &u.pre;
        // ---- C07
        if m.c07 {
            if let Some(i) = &ri {
                c.clause_evals += 5;
                if i.within != andb {
                    if i.r.is_none() {
                        rep!(true, "none", wit(u, &i.within, &andb), "None".into(), "Some(range containing the witness)".into());
                    } else {
                        let w = wit(u, &i.within, &andb);
                        rep!(true, "member", w, format!("result={} within(result) != within(A)&within(B)", i.key), "equal".into());
                    }
                }
                for b0 in &i.invented {
                    c.invented_bounds += 1;
                    for p in [b0.clone(), succ(b0)] {
                        let lhs = contains_any(&i.ivs, &p);
                        let rhs = contains_any(&a.ivs, &p) && contains_any(&b.ivs, &p);
                        if lhs != rhs {
                            rep!(true, "member", vtext(&p), format!("result={} contains={}", i.key, lhs), format!("{}", rhs));
                        }
                    }
                }
                let sab = a.sat.and(&b.sat);
                let l = i.sat.and(rel);
                let r = sab.and(rel);
                if l != r {
                    rep!(true, "release", wit(u, &l, &r), format!("result={} satisfies differs on a release", i.key), "sat(A)&sat(B)".into());
                }
                let pb = sab.and(pre);
                if !pb.subset_of(&i.sat) {
                    rep!(true, "pre-both", first_of(u, &pb.andnot(&i.sat)), format!("result={} rejects a prerelease satisfying both", i.key), "admitted".into());
                }
                let pr = i.sat.and(pre);
                let allowed = andb.and(&a.sat.or(&b.sat));
                if !pr.subset_of(&allowed) {
                    rep!(true, "pre-result", first_of(u, &pr.andnot(&allowed)), format!("result={} admits a prerelease not within both / satisfying neither", i.key), "rejected".into());
                }
                // commutativity of admitted versions (computed once per unordered pair)
                if a_before_b && !same {
                    c.transitions += 1;
                    match guarded(|| b.r.intersect(&a.r)).and_then(|r| e.res_of(r, self.full)) {
                        Ok(j) => {
                            if j.sat != i.sat || j.within != i.within {
                                let w = if j.within != i.within { wit(u, &j.within, &i.within) } else { wit(u, &j.sat, &i.sat) };
                                rep!(true, "commute", w, format!("A&B={} B&A={}", i.key, j.key), "same admitted versions".into());
                            }
                        }
                        Err(_) => {}
                    }
                }
                if same {
                    if i.sat != a.sat || i.within != a.within {
                        let w = if i.within != a.within { wit(u, &i.within, &a.within) } else { wit(u, &i.sat, &a.sat) };
                        rep!(true, "idem", w, format!("A&A={}", i.key), "same admitted versions as A".into());
                    }
                }
            }
        }
        // ---- C08
        if m.c08 {
            if let Some(d) = &rd {
                c.clause_evals += 4;
                let want = a.within.andnot(&b.within);
                let member_ok = d.within == want;
                if !member_ok {
                    if d.r.is_none() {
                        rep!(true, "none", wit(u, &d.within, &want), "None".into(), "Some(range containing the witness)".into());
                    } else {
                        rep!(true, "member", wit(u, &d.within, &want), format!("result={} within(result) != within(A)&!within(B)", d.key), "equal".into());
                    }
                }
                for b0 in &d.invented {
                    c.invented_bounds += 1;
                    for p in [b0.clone(), succ(b0)] {
                        let lhs = contains_any(&d.ivs, &p);
                        let rhs = contains_any(&a.ivs, &p) && !contains_any(&b.ivs, &p);
                        if lhs != rhs {
                            rep!(true, "member", vtext(&p), format!("result={} contains={}", d.key, lhs), format!("{}", rhs));
                        }
                    }
                }
                let l = d.sat.and(rel);
                let r = a.sat.andnot(&b.sat).and(rel);
                if l != r {
                    rep!(true, "release", wit(u, &l, &r), format!("result={} satisfies differs on a release", d.key), "sat(A)&!sat(B)".into());
                }
                if member_ok {
                    // disjoint from B is implied; state the partition law with the real intersect
                    if let Some(i) = &ri {
                        let un = i.within.or(&d.within);
                        if un != a.within {
                            rep!(true, "partition", wit(u, &un, &a.within), format!("A&B={} A\\B={} do not cover A", i.key, d.key), "union = A".into());
                        } else if !i.within.and(&d.within).is_empty() {
                            rep!(true, "partition", first_of(u, &i.within.and(&d.within)), format!("A&B={} A\\B={} overlap", i.key, d.key), "disjoint".into());
                        }
                    }
                } else if !d.within.and(&b.within).is_empty() {
                    rep!(true, "disjoint", first_of(u, &d.within.and(&b.within)), format!("result={} contains a version of B", d.key), "none".into());
                }
            }
        }
        // ---- allows_any / allows_all
        let mut any_ab: Option<bool> = None;
        if m.c09 || m.c10 || m.c06 {
            match guarded(|| a.r.allows_any(&b.r)) {
                Ok(x) => {
                    any_ab = Some(x);
                    if x { c.any_true += 1 } else { c.any_false += 1 }
                }
                Err(msg) => {
                    rep!(m.c06, "panic:allows_any", "-".to_string(), format!("panic: {}", msg), "returns".into());
                    rep!(m.c09, "panic", "-".to_string(), format!("panic: {}", msg), "returns".into());
                }
            }
        }
        if m.c09 {
            if let Some(x) = any_ab {
                c.clause_evals += 4;
                if let Some(i) = &ri {
                    if x != i.r.is_some() {
                        rep!(true, "intersect", "-".to_string(), format!("allows_any={} intersect={}", x, i.key), "allows_any == intersect.is_some()".into());
                    }
                }
                if let Ok(y) = guarded(|| b.r.allows_any(&a.r)) {
                    if x != y {
                        rep!(true, "symm", "-".to_string(), format!("A.allows_any(B)={} B.allows_any(A)={}", x, y), "equal".into());
                    }
                }
                if overlap_v && !x {
                    rep!(true, "overlap", first_of(u, &andb), "false".into(), "true (the witness lies within both)".into());
                }
                if !overlap_c && x {
                    rep!(true, "touch", "-".to_string(), "true".into(), "false (no alternative pair overlaps, not even at an included endpoint)".into());
                }
                if !a.sat.and(&b.sat).is_empty() && !x {
                    rep!(true, "sat-both", first_of(u, &a.sat.and(&b.sat)), "false".into(), "true (the witness satisfies both)".into());
                }
            }
        }
        if m.c10 || m.c06 {
            if b.ivs.len() == 1 || same {
                match guarded(|| a.r.allows_all(&b.r)) {
                    Ok(x) => {
                        if x { c.all_true += 1 } else { c.all_false += 1 }
                        if m.c10 {
                            c.clause_evals += 3;
                            if same && !x {
                                rep!(true, "refl", "-".to_string(), "false".into(), "true".into());
                            }
                            if b.ivs.len() == 1 {
                                if x && !b.within.subset_of(&a.within) {
                                    rep!(true, "subset", first_of(u, &b.within.andnot(&a.within)), "true".into(), "false (the witness is within B but not within A)".into());
                                }
                                if x && any_ab == Some(false) {
                                    rep!(true, "any", "-".to_string(), "allows_all=true allows_any=false".into(), "allows_any=true".into());
                                }
                                if a.ivs.len() == 1 {
                                    c.transitions += 1;
                                    match guarded(|| b.r.difference(&a.r)) {
                                        Ok(dd) => {
                                            if x != dd.is_none() {
                                                rep!(true, "difference", "-".to_string(), format!("allows_all={} B.difference(A).is_none()={}", x, dd.is_none()), "equal".into());
                                            }
                                        }
                                        Err(msg) => {
                                            rep!(true, "panic", "-".to_string(), format!("B.difference(A) panics: {}", msg), "returns".into());
                                        }
                                    }
                                }
                            }
                        }
                    }
                    Err(msg) => {
                        rep!(m.c06, "panic:allows_all", "-".to_string(), format!("panic: {}", msg), "returns".into());
                        rep!(m.c10, "panic", "-".to_string(), format!("panic: {}", msg), "returns".into());
                    }
                }
            }
        }
        // ---- C15 pair-level identities (compositions on results)
        if m.c15 {
            if let (Some(i), Some(d)) = (&ri, &rd) {
                c.clause_evals += 4;
                if same && !d.within.is_empty() {
                    rep!(true, "self-diff", first_of(u, &d.within), format!("A\\A={}", d.key), "empty".into());
                }
                let un = i.within.or(&d.within);
                if un != a.within || !i.within.and(&d.within).is_empty() {
                    let w = if un != a.within { wit(u, &un, &a.within) } else { first_of(u, &i.within.and(&d.within)) };
                    rep!(true, "cover", w, format!("A&B={} A\\B={}", i.key, d.key), "disjoint union = A".into());
                }
                if let Some(dr) = &d.r {
                    // (A\B) & B is empty
                    c.transitions += 1;
                    match guarded(|| dr.intersect(&b.r)).and_then(|r| e.res_of(r, false)) {
                        Ok(x) => {
                            if !x.within.is_empty() {
                                rep!(true, "diff-meet", first_of(u, &x.within), format!("(A\\B)&B={}", x.key), "empty".into());
                            }
                        }
                        Err(msg) => rep!(true, "panic:intersect", "-".to_string(), format!("(A\\B)&B panics: {}", msg), "returns".into()),
                    }
                    // A \ (A\B) == A & B
                    c.transitions += 1;
                    match guarded(|| a.r.difference(dr)).and_then(|r| e.res_of(r, false)) {
                        Ok(x) => {
                            if x.within != i.within {
                                rep!(true, "double-diff", wit(u, &x.within, &i.within), format!("A\\(A\\B)={} A&B={}", x.key, i.key), "equal".into());
                            }
                        }
                        Err(msg) => rep!(true, "panic:difference", "-".to_string(), format!("A\\(A\\B) panics: {}", msg), "returns".into()),
                    }
                } else if i.within != a.within {
                    rep!(true, "double-diff", wit(u, &i.within, &a.within), format!("A\\B=None but A&B={}", i.key), "A&B = A".into());
                }
                // commutativity of intersect on bounds
                if a_before_b && !same {
                    c.transitions += 1;
                    if let Ok(j) = guarded(|| b.r.intersect(&a.r)).and_then(|r| e.res_of(r, false)) {
                        if j.within != i.within {
                            rep!(true, "commute", wit(u, &j.within, &i.within), format!("A&B={} B&A={}", i.key, j.key), "equal".into());
                        }
                    }
                }
                if same && i.within != a.within {
                    rep!(true, "idem", wit(u, &i.within, &a.within), format!("A&A={}", i.key), "A".into());
                }
            }
        }
        // ---- history independence: repeating the operations after all the others gives the same values
        if m.c07 || m.c08 || m.c09 || m.c15 {
            if let Some(i) = &ri {
                if let Ok(again) = guarded(|| a.r.intersect(&b.r)) {
                    let k2 = again.as_ref().map(|x| bound_key(&x.verif_bounds())).unwrap_or("None".into());
                    if k2 != i.key {
                        rep!(m.c07 || m.c15, "history", "-".to_string(), format!("first call {} later call {}", i.key, k2), "the same result for the same operands".into());
                    }
                }
            }
            if let Some(d) = &rd {
                if let Ok(again) = guarded(|| a.r.difference(&b.r)) {
                    let k2 = again.as_ref().map(|x| bound_key(&x.verif_bounds())).unwrap_or("None".into());
                    if k2 != d.key {
                        rep!(m.c08 || m.c15, "history", "-".to_string(), format!("first call {} later call {}", d.key, k2), "the same result for the same operands".into());
                    }
                }
            }
            if let (Some(x), Ok(y)) = (any_ab, guarded(|| a.r.allows_any(&b.r))) {
                if x != y {
                    rep!(m.c09, "history", "-".to_string(), format!("first call {} later call {}", x, y), "the same result for the same operands".into());
                }
            }
        }
        (ri.filter(|x| x.r.is_some()), rd.filter(|x| x.r.is_some()))
    }

    /// Per-state clauses (run once for every distinct reached state).
    pub fn check_state(&self, st: &St, expr: &dyn Fn() -> Value, c: &mut Counters) {
        crate::report::beat();
        let e = self.e;
        let u = &e.u;
        let m = self.mask;
        c.new_states += 1;
        let k = &st.key;
        let rp = |on: bool, clause: &str, w: String, obs: String, exp: String| {
            if on {
                self.sink.report(
                    clause,
                    format!("R={}|v={}", k, w),
                    json!({"engine": "C", "kind": "state", "r": expr(), "tier": e.tier}),
                    obs,
                    exp,
                );
            }
        };
        // C03: real satisfies vs bounds-based gate
        if m.c03 {
            c.clause_evals += 1;
            if st.sat != st.refsat {
                let i = st.sat.first_diff(&st.refsat).unwrap();
                let v = &u.vs[i];
                let clause = if !is_pre(v) {
                    "state-release"
                } else if st.sat.get(i) {
                    "state-gate-closed"
                } else {
                    "state-gate-open"
                };
                rp(true, clause, vtext(v), format!("satisfies={}", st.sat.get(i)), format!("{}", st.refsat.get(i)));
            }
        }
        // C06 unary operations
        if m.c06 {
            for (name, res) in [
                ("to_string", guarded(|| { let _ = st.r.to_string(); })),
                ("debug", guarded(|| { let _ = format!("{:?}", st.r); })),
                ("clone-eq-hash", guarded(|| {
                    use std::hash::{Hash, Hasher};
                    let c2 = st.r.clone();
                    let _ = c2 == st.r;
                    let mut h = std::collections::hash_map::DefaultHasher::new();
                    st.r.hash(&mut h);
                    let _ = h.finish();
                })),
                ("min_version", guarded(|| { let _ = st.r.min_version(); })),
                ("max-min_satisfying", guarded(|| {
                    let _ = st.r.max_satisfying(&u.vs);
                    let _ = st.r.min_satisfying(&u.vs);
                })),
            ] {
                if let Err(msg) = res {
                    rp(true, &format!("panic:{}", name), "-".into(), format!("panic: {}", msg), "returns".into());
                }
            }
        }
        // C09 probes: A.allows_any(exact v) == v within A
        if m.c09 {
            for (i, p) in e.probes.iter().enumerate() {
                if let Some(p) = p {
                    c.probes += 1;
                    if let Ok(x) = guarded(|| st.r.allows_any(p)) {
                        if x != st.within.get(i) {
                            rp(true, "probe", vtext(&u.vs[i]), format!("allows_any(exact v)={}", x), format!("{}", st.within.get(i)));
                        }
                    }
                }
            }
        }
        // C10 reflexivity
        if m.c10 {
            if let Ok(x) = guarded(|| st.r.allows_all(&st.r)) {
                if !x {
                    rp(true, "refl", "-".into(), "false".into(), "true".into());
                }
            }
        }
        // C11 min_version
        if m.c11 {
            c.clause_evals += 1;
            match guarded(|| st.r.min_version()) {
                Err(msg) => rp(true, "panic", "-".into(), format!("panic: {}", msg), "returns".into()),
                Ok(Some(mv)) => {
                    let ok = guarded(|| st.r.satisfies(&mv)).unwrap_or(false);
                    if !ok {
                        rp(true, "unsat-min", vtext(&mv), format!("min_version={} does not satisfy", vtext(&mv)), "a satisfying version".into());
                    }
                    if let Some(f) = st.sat.first() {
                        if rlt(&u.vs[f], &mv) {
                            rp(true, "lower-exists", vtext(&u.vs[f]), format!("min_version={}", vtext(&mv)), format!("{} satisfies and is lower", vtext(&u.vs[f])));
                        }
                    }
                }
                Ok(None) => {
                    if let Some(f) = st.sat.first() {
                        rp(true, "none-but-sat", vtext(&u.vs[f]), "None".into(), format!("Some(<= {})", vtext(&u.vs[f])));
                    }
                }
            }
        }
        // C13 print / parse round trip
        if m.c13 && !st.has_full {
            c.clause_evals += 6;
            check_roundtrip(u, &st.r, &st.within, &st.sat, matches!(st.origin, Origin::Leaf(_)), &mut |clause, w, obs, exp| {
                rp(true, clause, w, obs, exp)
            });
        }
        // C15: "results remain printable, re-parsable operands for further operations": the printed
        // form of every state parses back to the same set (the other round-trip clauses are C13's)
        if m.c15 && !m.c13 && !st.has_full {
            c.clause_evals += 3;
            check_roundtrip(u, &st.r, &st.within, &st.sat, false, &mut |clause, w, obs, exp| {
                if matches!(clause, "reparse" | "within" | "sat") {
                    rp(true, &format!("operand-{}", clause), w, obs, exp)
                }
            });
        }
    }
}

/// C13 oracle for one range value whose within/sat bitsets are known.
pub fn check_roundtrip(
    u: &Universe,
    r: &Range,
    within: &Bits,
    sat: &Bits,
    parsed: bool,
    rp: &mut dyn FnMut(&str, String, String, String),
) {
    let s = match guarded(|| r.to_string()) {
        Ok(s) => s,
        Err(msg) => {
            rp("reparse", "-".into(), format!("to_string panics: {}", msg), "prints".into());
            return;
        }
    };
    let r2 = match guarded(|| Range::parse(&s)) {
        Ok(Ok(r2)) => r2,
        Ok(Err(e)) => {
            rp("reparse", "-".into(), format!("`{}` does not re-parse: {}", s, e), "Ok".into());
            return;
        }
        Err(msg) => {
            rp("reparse", "-".into(), format!("parse(`{}`) panics: {}", s, msg), "Ok".into());
            return;
        }
    };
    let ivs2 = intervals_of(&r2);
    let w2 = within_bits(u, &ivs2);
    if &w2 != within {
        rp("within", wit(u, &w2, within), format!("printed `{}` re-parses to {}", s, bound_key(&r2.verif_bounds())), "same bounds membership".into());
    }
    if let Ok(s2) = real_sat_bits(u, &r2) {
        if &s2 != sat {
            rp("sat", wit(u, &s2, sat), format!("printed `{}` re-parses to a range with different satisfies", s), "same".into());
        }
    }
    if parsed && &r2 != r {
        rp("eq", "-".into(), format!("parse(`{}`) != original", s), "==".into());
    }
    // "printing is stable after one round": the printed form of the re-parsed range is a fixed point
    // of print-parse (the first printing of a result of set operations need not be: the parser may
    // normalise it, e.g. drop a repeated alternative; for ranges obtained from parse the clause `eq`
    // above already ties the two printings together)
    let s2 = r2.to_string();
    match guarded(|| Range::parse(&s2)) {
        Ok(Ok(r3)) => {
            let s3 = r3.to_string();
            if s3 != s2 {
                rp("fixpoint", "-".into(), format!("`{}` -> `{}` -> `{}`", s, s2, s3), "stable after one round".into());
            }
        }
        _ => rp("fixpoint", "-".into(), format!("`{}` -> `{}` does not parse", s, s2), "stable after one round".into()),
    }
    match serde_json::to_string(r) {
        Ok(js) => {
            let want = serde_json::to_string(&s).unwrap();
            if js != want {
                rp("json", "-".into(), format!("json {}", js), want);
            } else {
                match serde_json::from_str::<Range>(&js) {
                    Ok(r3) => {
                        let w3 = within_bits(u, &intervals_of(&r3));
                        if &w3 != within || (parsed && &r3 != r) {
                            rp("json", "-".into(), format!("json {} deserialises to a different range", js), "same".into());
                        }
                    }
                    Err(e) => rp("json", "-".into(), format!("json {} does not deserialise: {}", js, e), "Ok".into()),
                }
            }
        }
        Err(e) => rp("json", "-".into(), format!("serialise fails: {}", e), "Ok".into()),
    }
}

pub struct RunOut {
    pub counters: Counters,
    pub states_d0: usize,
    pub states_d1: usize,
    pub distinct_d2: u64,
    pub distinct_d3: u64,
    pub depth_completed: u8,
    pub samples: Vec<Value>,
}

/// Full exploration for one property mask.
pub fn explore(prop: &str, tier: &str, sink: &Sink, depth2: bool, triples: bool, depth3: bool) -> (EngC, RunOut) {
    let mask = Mask::of(prop);
    let mut e = EngC::new(tier);
    let n0 = e.states.len();
    let mut samples = vec![];
    // ---- level 0 states
    let mut c0 = Counters::default();
    {
        let ctx = PairCtx { e: &e, sink, mask, full: true, register: true };
        for i in 0..n0 {
            ctx.check_state(&e.states[i], &|| e.expr_json(i), &mut c0);
        }
    }
    // ---- depth 1: S0 x S0, results become states
    let results: Vec<(Counters, Vec<(Origin, Res)>)> = {
        let ctx = PairCtx { e: &e, sink, mask, full: true, register: true };
        (0..n0)
            .into_par_iter()
            .map(|i| {
                let mut c = Counters::default();
                let mut out = vec![];
                for j in 0..n0 {
                    let (a, b) = (&e.states[i], &e.states[j]);
                    let prod = ctx.check_pair(a, b, i == j, i < j, &|| e.expr_json(i), &|| e.expr_json(j), &mut c);
                    if let Some(res) = prod.0 {
                        out.push((Origin::Int(i, j), res));
                    }
                    if let Some(res) = prod.1 {
                        out.push((Origin::Diff(i, j), res));
                    }
                }
                (c, out)
            })
            .collect()
    };
    let mut c1 = Counters::default();
    let mut newly: Vec<usize> = vec![];
    for (c, out) in results {
        c1 = c1.merge(c);
        for (origin, res) in out {
            if e.index.contains_key(&res.key) {
                continue;
            }
            let r = res.r.clone().unwrap();
            if let Ok(st) = EngC::make_state(&e.u, r, origin, 1) {
                let before = e.states.len();
                let idx = e.add_state(st);
                if idx == before {
                    newly.push(idx);
                }
            }
        }
    }
    let n1 = e.states.len();
    {
        let ctx = PairCtx { e: &e, sink, mask, full: true, register: true };
        let cs: Vec<Counters> = newly
            .par_iter()
            .map(|&i| {
                let mut c = Counters::default();
                ctx.check_state(&e.states[i], &|| e.expr_json(i), &mut c);
                c
            })
            .collect();
        for c in cs {
            c1 = c1.merge(c);
        }
    }
    // ---- three-alternative operands against every leaf, both orders (results checked as states)
    if !e.probes3.is_empty() {
        let ctx = PairCtx { e: &e, sink, mask, full: true, register: false };
        let cs: Vec<Counters> = (0..n0)
            .into_par_iter()
            .map(|i| {
                let mut c = Counters::default();
                for (pi, p) in e.probes3.iter().enumerate() {
                    let pe = || match &p.origin { Origin::Leaf(t) => json!({"parse": t}), _ => json!(null) };
                    if pi % n0 == i {
                        // every probe once against itself (idempotence, A \ A)
                        ctx.check_pair(p, p, true, false, &pe, &pe, &mut c);
                    }
                    for flip in [false, true] {
                        let prod = if !flip {
                            ctx.check_pair(&e.states[i], p, false, false, &|| e.expr_json(i), &pe, &mut c)
                        } else {
                            ctx.check_pair(p, &e.states[i], false, false, &pe, &|| e.expr_json(i), &mut c)
                        };
                        for (is_int, res) in [(true, prod.0), (false, prod.1)] {
                            let Some(res) = res else { continue };
                            if e.is_new2(&res.key) {
                                let mk = || {
                                    let (x, y) = if !flip { (e.expr_json(i), pe()) } else { (pe(), e.expr_json(i)) };
                                    if is_int { json!({"intersect": [x, y]}) } else { json!({"difference": [x, y]}) }
                                };
                                if let Ok(st) = EngC::make_state(&e.u, res.r.unwrap(), Origin::Int(0, 0), 1) {
                                    ctx.check_state(&st, &mk, &mut c);
                                }
                            }
                        }
                    }
                }
                c
            })
            .collect();
        for c in cs {
            c1 = c1.merge(c);
        }
    }
    for i in [0usize, n0 / 3, n0 - 1, n0 + (n1 - n0) / 2, n1 - 1] {
        if i < n1 {
            samples.push(json!({"state": e.expr_text(i), "bounds": e.states[i].key}));
        }
    }
    let mut total = c0.merge(c1);
    // ---- associativity over S0^3 (C15 only)
    if mask.c15 && triples {
        let ctx = PairCtx { e: &e, sink, mask, full: false, register: false };
        let cs: Vec<Counters> = (0..n0)
            .into_par_iter()
            .map(|i| {
                let mut c = Counters::default();
                for j in 0..n0 {
                    let ab = guarded(|| e.states[i].r.intersect(&e.states[j].r));
                    for k in 0..n0 {
                        c.triples += 1;
                        c.transitions += 4;
                        let (a, b, cc) = (&e.states[i], &e.states[j], &e.states[k]);
                        let lhs = match &ab {
                            Ok(Some(x)) => guarded(|| x.intersect(&cc.r)),
                            Ok(None) => Ok(None),
                            Err(m) => Err(m.clone()),
                        };
                        let bc = guarded(|| b.r.intersect(&cc.r));
                        let rhs = match &bc {
                            Ok(Some(x)) => guarded(|| a.r.intersect(x)),
                            Ok(None) => Ok(None),
                            Err(m) => Err(m.clone()),
                        };
                        let (Ok(l), Ok(r)) = (lhs, rhs) else {
                            ctx.sink.report(
                                "panic:intersect",
                                format!("A={}|B={}|C={}", a.key, b.key, cc.key),
                                json!({"engine":"C","kind":"triple","a":e.expr_json(i),"b":e.expr_json(j),"c":e.expr_json(k),"tier":e.tier}),
                                "panic".into(),
                                "returns".into(),
                            );
                            continue;
                        };
                        let lw = l.as_ref().map(|x| within_bits(&e.u, &intervals_of(x))).unwrap_or(e.u.zero());
                        let rw = r.as_ref().map(|x| within_bits(&e.u, &intervals_of(x))).unwrap_or(e.u.zero());
                        let want = a.within.and(&b.within).and(&cc.within);
                        if lw != rw || lw != want {
                            let w = if lw != rw { wit(&e.u, &lw, &rw) } else { wit(&e.u, &lw, &want) };
                            ctx.sink.report(
                                "assoc",
                                format!("A={}|B={}|C={}|v={}", a.key, b.key, cc.key, w),
                                json!({"engine":"C","kind":"triple","a":e.expr_json(i),"b":e.expr_json(j),"c":e.expr_json(k),"tier":e.tier}),
                                "(A&B)&C, A&(B&C) and the pointwise meet differ".into(),
                                "equal".into(),
                            );
                        }
                    }
                }
                c
            })
            .collect();
        for c in cs {
            total = total.merge(c);
        }
    }
    // ---- depth 2: S1 x S1, results checked, counted, hashed (not stored)
    let mut depth_completed = 1;
    let mut distinct_d3 = 0u64;
    if depth2 {
        let ctx = PairCtx { e: &e, sink, mask, full: false, register: false };
        let ctx_state = PairCtx { e: &e, sink, mask, full: true, register: false };
        let keep2: Mutex<Vec<(St, bool, usize, usize)>> = Mutex::new(vec![]);
        let cs: Vec<Counters> = (0..n1)
            .into_par_iter()
            .map(|i| {
                let mut c = Counters::default();
                for j in 0..n1 {
                    if i < n0 && j < n0 {
                        continue; // done at depth 1
                    }
                    let (a, b) = (&e.states[i], &e.states[j]);
                    let prod = ctx.check_pair(a, b, i == j, i < j, &|| e.expr_json(i), &|| e.expr_json(j), &mut c);
                    for (is_int, res) in [(true, prod.0), (false, prod.1)] {
                        let Some(res) = res else { continue };
                        if e.is_new2(&res.key) {
                            // new depth-2 state: per-state clauses with real satisfies
                            let r = res.r.unwrap();
                            let mk = || {
                                if is_int {
                                    json!({"intersect": [e.expr_json(i), e.expr_json(j)]})
                                } else {
                                    json!({"difference": [e.expr_json(i), e.expr_json(j)]})
                                }
                            };
                            if let Ok(st) = EngC::make_state(&e.u, r, Origin::Int(i, j), 2) {
                                ctx_state.check_state(&st, &mk, &mut c);
                                if depth3 {
                                    keep2.lock().unwrap().push((st, is_int, i, j));
                                }
                            }
                        }
                    }
                }
                c
            })
            .collect();
        for c in cs {
            total = total.merge(c);
        }
        depth_completed = 2;
        // ---- depth 3 (one leaf operand): every new depth-2 state against every leaf, both orders
        if depth3 {
            let mut s2 = keep2.into_inner().unwrap();
            s2.sort_by(|a, b| (a.0.key.len(), &a.0.key).cmp(&(b.0.key.len(), &b.0.key)));
            let ex = |k: usize| {
                let (_, is_int, i, j) = &s2[k];
                if *is_int {
                    json!({"intersect": [e.expr_json(*i), e.expr_json(*j)]})
                } else {
                    json!({"difference": [e.expr_json(*i), e.expr_json(*j)]})
                }
            };
            let seen3: Vec<Mutex<HashSet<u64>>> = (0..256).map(|_| Mutex::new(HashSet::new())).collect();
            let cs: Vec<Counters> = (0..s2.len())
                .into_par_iter()
                .map(|k| {
                    let mut c = Counters::default();
                    let a = &s2[k].0;
                    for l in 0..n0 {
                        let b = &e.states[l];
                        for flip in [false, true] {
                            let prod = if !flip {
                                ctx.check_pair(a, b, false, false, &|| ex(k), &|| e.expr_json(l), &mut c)
                            } else {
                                ctx.check_pair(b, a, false, false, &|| e.expr_json(l), &|| ex(k), &mut c)
                            };
                            for (is_int, res) in [(true, prod.0), (false, prod.1)] {
                                let Some(res) = res else { continue };
                                if e.index.contains_key(&res.key) {
                                    continue;
                                }
                                let h = fnv64(&res.key);
                                if e.seen2[(h & 255) as usize].lock().unwrap().contains(&h) {
                                    continue;
                                }
                                if !seen3[(h & 255) as usize].lock().unwrap().insert(h) {
                                    continue;
                                }
                                let r = res.r.unwrap();
                                let mk = || {
                                    let (x, y) = if !flip { (ex(k), e.expr_json(l)) } else { (e.expr_json(l), ex(k)) };
                                    if is_int { json!({"intersect": [x, y]}) } else { json!({"difference": [x, y]}) }
                                };
                                if let Ok(st) = EngC::make_state(&e.u, r, Origin::Int(0, 0), 3) {
                                    ctx_state.check_state(&st, &mk, &mut c);
                                }
                            }
                        }
                    }
                    c
                })
                .collect();
            for c in cs {
                total = total.merge(c);
            }
            depth_completed = 3;
            distinct_d3 = seen3.iter().map(|m| m.lock().unwrap().len() as u64).sum();
        }
    }
    let distinct_d2 = e.distinct_depth2();
    let out = RunOut {
        counters: total,
        states_d0: n0,
        states_d1: n1,
        distinct_d2,
        distinct_d3,
        depth_completed,
        samples,
    };
    (e, out)
}

/// Replay one recorded case (single-threaded, no explorer).
pub fn replay(prop: &str, case: &Value, sink: &Sink) {
    let tier = case["tier"].as_str().unwrap_or("quick");
    let e = EngC::new(tier);
    let mask = Mask::of(prop);
    let full = case["full"].as_bool().unwrap_or(true);
    let ctx = PairCtx { e: &e, sink, mask, full, register: false };
    let mut c = Counters::default();
    match case["kind"].as_str().unwrap_or("") {
        "pair" => {
            let (Ok(a), Ok(b)) = (e.state_from_expr(&case["a"]), e.state_from_expr(&case["b"])) else {
                eprintln!("replay: operands cannot be rebuilt");
                return;
            };
            let same = a.key == b.key && case["a"] == case["b"];
            // run both orientations of the unordered-pair clauses
            ctx.check_pair(&a, &b, same, true, &|| case["a"].clone(), &|| case["b"].clone(), &mut c);
        }
        "state" => {
            let Ok(st) = e.state_from_expr(&case["r"]) else {
                eprintln!("replay: state cannot be rebuilt");
                return;
            };
            ctx.check_state(&st, &|| case["r"].clone(), &mut c);
        }
        "triple" => {
            // re-run the associativity clause
            let (Ok(a), Ok(b), Ok(cc)) = (
                e.state_from_expr(&case["a"]),
                e.state_from_expr(&case["b"]),
                e.state_from_expr(&case["c"]),
            ) else {
                return;
            };
            let l = guarded(|| a.r.intersect(&b.r).and_then(|x| x.intersect(&cc.r)));
            let r = guarded(|| b.r.intersect(&cc.r).and_then(|x| a.r.intersect(&x)));
            match (l, r) {
                (Ok(l), Ok(r)) => {
                    let lw = l.as_ref().map(|x| within_bits(&e.u, &intervals_of(x))).unwrap_or(e.u.zero());
                    let rw = r.as_ref().map(|x| within_bits(&e.u, &intervals_of(x))).unwrap_or(e.u.zero());
                    let want = a.within.and(&b.within).and(&cc.within);
                    if lw != rw || lw != want {
                        let w = if lw != rw { wit(&e.u, &lw, &rw) } else { wit(&e.u, &lw, &want) };
                        sink.report("assoc", format!("A={}|B={}|C={}|v={}", a.key, b.key, cc.key, w), case.clone(), "differ".into(), "equal".into());
                    }
                }
                _ => sink.report("panic:intersect", format!("A={}|B={}|C={}", a.key, b.key, cc.key), case.clone(), "panic".into(), "returns".into()),
            }
        }
        _ => eprintln!("replay: unknown case kind"),
    }
}
