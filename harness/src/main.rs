mod ast;
mod engine_a;
mod engine_b;
mod engine_b6;
mod engine_c;
mod engine_d;
mod refmodel;
mod report;
mod universe;

use report::*;
use serde_json::{json, Value};

fn level_of(prop: &str) -> &'static str {
    match prop {
        "C07" | "C08" | "C09" | "C10" | "C11" | "C13" | "C15" => "model_checking",
        _ => "exploration",
    }
}

const ASSUME_T1: &str = "T1 (DESIGN 2.2): identities between boolean combinations of interval memberships are decided for every version by the critical points {b, succ(b)} of the bound versions plus bottom/top; hand proof, relies on the reference order (checked against the crate and node-semver in C04)";
const ASSUME_T2: &str = "T2 (DESIGN 2.2): the least satisfying version of an interval set is one of the CP1 critical points; hand proof";
const ASSUME_H: &str = "H: satisfies() inspects the candidate only through comparisons with bound versions, is_prerelease and triple equality; the grid G(K) is added to catch simple violations of H";
const ASSUME_SMALL: &str = "numeric small scope: components drawn from {0,1,2,(3)} plus the MAX_SAFE_INTEGER limit family; uniform behaviour in between is assumed";

fn part_c(prop: &str, tier: &str, sink: &Sink, ev: &mut Evidence) {
    let triples = prop == "C15";
    // quick: quick leaf set to depth 2, tiny leaf set (bounds 1.0.0, 2.0.0) to depth 3.  thorough: thorough leaf set to depth 2, and additionally the
    // quick leaf set to depth 3 (every new depth-2 state against every leaf, both orders).
    // Both tiers additionally run the "exotic" leaf set (components above 2^32, tags whose numeric and
    // textual orders disagree) and the "longtag" leaf set (tags of three or four identifiers sharing
    // their first two): depth 1 in quick, depth 2 in thorough.
    let runs: Vec<(&str, bool, bool)> = if tier == "thorough" {
        vec![("thorough", true, false), ("quick", true, true), ("exotic", true, false), ("bits-all", false, false), ("longtag", true, false)]
    } else {
        vec![(tier, true, false), ("tiny", true, true), ("exotic", false, false), ("bits", false, false), ("longtag", false, false)]
    };
    // VERIF_LEAFSETS=exotic,longtag restricts a run to some leaf sets (used only to re-verify a
    // change to one leaf set quickly; the registered commands never set it)
    let only: Option<Vec<String>> = std::env::var("VERIF_LEAFSETS").ok().map(|v| v.split(',').map(|x| x.to_string()).collect());
    let mut per_run = vec![];
    for (leafset, depth2, depth3) in runs {
        if let Some(o) = &only {
            if !o.iter().any(|x| x == leafset) {
                continue;
            }
        }
        let (e, out) = engine_c::explore(prop, leafset, sink, depth2, triples && leafset != "exotic" && leafset != "longtag" && !leafset.starts_with("bits"), depth3);
        let c = &out.counters;
        ev.evaluations += c.pairs + c.new_states + c.triples;
        ev.distinct_nontrivial += c.nontrivial_pairs;
        let states = out.states_d1 as u64 + out.distinct_d2 + out.distinct_d3;
        ev.states = Some(ev.states.unwrap_or(0) + states);
        ev.transitions = Some(ev.transitions.unwrap_or(0) + c.transitions);
        ev.traces_validated = Some(ev.traces_validated.unwrap_or(0) + c.transitions);
        ev.samples.extend(out.samples.clone());
        per_run.push(json!({
            "leaf_set": leafset,
            "leaf_states": out.states_d0,
            "states_after_depth_1": out.states_d1,
            "distinct_new_states_at_depth_2": out.distinct_d2,
            "distinct_new_states_at_depth_3": out.distinct_d3,
            "depth_completed": out.depth_completed,
            "universe_versions": e.u.len(),
            "counters": c.to_json(),
            "leaf_texts_not_parsing": (engine_c::leaf_texts(leafset).len() + 1).saturating_sub(out.states_d0),
        }));
    }
    ev.extra.insert("engine_c".into(), json!(per_run));
    if !ev.rule.is_empty() {
        ev.rule.push_str(" || ");
    }
    ev.rule.push_str("Engine C: breadth-first explicit-state search of the range algebra on the real code; states = Range values keyed by their exact interval list (hook), transitions = intersect/difference for every ordered pair of reached states (depth 1: leaves x leaves, stored; depth 2: all pairs of depth<=1 states; thorough additionally depth 3 on the quick leaf set: every new depth-2 state x every leaf, both orders) plus per-state clauses on every distinct state; every transition is compared with bitset arithmetic over the exact critical-point universe; non-trivial = ordered pairs whose operands overlap without either containing the other");
    for a in [ASSUME_T1, ASSUME_T2, ASSUME_H, ASSUME_SMALL] {
        if !ev.assumptions.iter().any(|x| x == a) {
            ev.assumptions.push(a.to_string());
        }
    }
}

fn part_a(prop: &str, tier: &str, sink: &Sink, ev: &mut Evidence) {
    if matches!(prop, "C01" | "C02" | "C03") {
        match engine_a::oracle_crosscheck() {
            Ok((cases, cells, dis, first)) => {
                ev.extra.insert("oracle_crosscheck".into(), json!({"against": "frozen node-semver 7.6.2 answers (fixtures/npm-7.6.2/answers.json)", "programs": cases, "cells": cells, "disagreements": dis}));
                if dis != 0 {
                    eprintln!("MACHINERY: reference model disagrees with the node-semver fixtures: {}", first);
                    std::process::exit(2);
                }
            }
            Err(e) => {
                eprintln!("MACHINERY: oracle cross-check failed: {}", e);
                std::process::exit(2);
            }
        }
    }
    let (e, out) = match prop {
        "C01" => engine_a::run_c01(tier, sink),
        "C02" => engine_a::run_c02(tier, sink),
        _ => engine_a::run_misc(prop, tier, sink),
    };
    let programs = out.counters.get("programs").copied().unwrap_or(0) + out.counters.get("pairs").copied().unwrap_or(0);
    ev.evaluations += programs;
    ev.distinct_nontrivial += out.counters.get("nontrivial_programs").copied().unwrap_or(0);
    if ev.level == "model_checking" {
        ev.states = Some(ev.states.unwrap_or(0) + programs);
        ev.transitions = Some(ev.transitions.unwrap_or(0) + programs);
        ev.traces_validated = Some(ev.traces_validated.unwrap_or(0) + programs);
    }
    ev.samples.extend(out.samples.clone());
    ev.extra.insert(
        "engine_a".into(),
        json!({"universe_versions": e.u.len(), "counters": out.counters, "deviation_sites_per_kind": out.per_dev_kind,
               "level1_partials": e.all_partials.len(), "reduced_comparators": e.reduced.len(), "core_comparators": e.core.len(), "alternative_set": e.alts.len()}),
    );
    if !ev.rule.is_empty() {
        ev.rule.push_str(" || ");
    }
    ev.rule.push_str("Engine A: every range program (AST) of the bounded grammar (level 1: every operator x every partial over the component alphabet, every hyphen pair; level 2: every ordered pair `a b` over the reduced comparator set and every `a || b` over the alternative set; level 3 (thorough): every triple over the core), rendered with 0, 1 (and for level 1 in thorough: 2) spelling deviations at every applicable site, parsed by the real Range::parse and compared with the reference desugaring on every version of the universe; non-trivial = programs whose reference meaning admits some but not all universe versions");
    for a in [ASSUME_T2, ASSUME_H, ASSUME_SMALL, "reference desugaring = DESIGN Appendix A, validated against node-semver 7.6.2 (fixtures); cells where node's `>=0.0.0`-is-any shortcut and the documented reading differ are don't-care"] {
        if !ev.assumptions.iter().any(|x| x == a) {
            ev.assumptions.push(a.to_string());
        }
    }
}

fn part_b(prop: &str, tier: &str, sink: &Sink, ev: &mut Evidence) {
    let out = match prop {
        "C05" => engine_b::run_c05(tier, sink),
        "C12" => engine_b::run_c12(tier, sink),
        "C17" => engine_b::run_c17(tier, sink),
        "C13" => {
            let e = engine_a::EngA::new(tier);
            engine_b::run_c13_strings(tier, sink, &e.u)
        }
        _ => return,
    };
    let strings = out.counters.get("strings").copied().unwrap_or(0) + out.counters.get("built_field_combinations").copied().unwrap_or(0);
    ev.evaluations += strings;
    let nontrivial = match prop {
        "C05" => out.counters.get("accepted").copied().unwrap_or(0) + out.counters.get("rejected_within_one_edit_of_an_accepted_seed").copied().unwrap_or(0),
        "C12" => out.counters.get("accepted").copied().unwrap_or(0) + out.counters.get("built_field_combinations").copied().unwrap_or(0),
        "C17" => out.counters.get("rejected").copied().unwrap_or(0),
        _ => out.counters.get("distinct_range_values").copied().unwrap_or(0),
    };
    ev.distinct_nontrivial += nontrivial;
    if ev.level == "model_checking" {
        ev.states = Some(ev.states.unwrap_or(0) + out.counters.get("distinct_range_values").copied().unwrap_or(0));
        ev.transitions = Some(ev.transitions.unwrap_or(0) + strings);
        ev.traces_validated = Some(ev.traces_validated.unwrap_or(0) + strings);
    }
    ev.samples.extend(out.samples.clone());
    ev.extra.insert("engine_b".into(), json!({"max_length_in_symbols": out.n, "version_alphabet": engine_b::SIGMA_V, "range_alphabet": engine_b::SIGMA_R, "counters": out.counters}));
    if !ev.rule.is_empty() {
        ev.rule.push_str(" || ");
    }
    ev.rule.push_str("Engine B: every string over the token-class alphabet up to the stated length (complete input tree of the parser to that depth), every single edit (and for the shortest seeds every pair of edits) of the canonical seeds over an extended symbol set incl. multi-byte characters, and the length / integer limit families; non-trivial = accepted strings (C05/C12), rejected strings (C17), distinct parsed values (C13)");
}

fn part_d(prop: &str, tier: &str, sink: &Sink, ev: &mut Evidence) {
    let out = match prop {
        "C04" => engine_d::run_c04(tier, sink),
        "C14" => engine_d::run_c14(tier, sink),
        "C16" => engine_d::run_c16(tier, sink),
        _ => engine_d::run_c18(tier, sink),
    };
    let c = &out.counters;
    let g = |k: &str| c.get(k).copied().unwrap_or(0);
    match prop {
        "C04" => {
            ev.evaluations += g("ordered_pairs") + g("triples") + g("lists");
            ev.distinct_nontrivial += g("triples_with_three_distinct_classes");
        }
        "C14" => {
            ev.evaluations += g("evaluations");
            ev.distinct_nontrivial += g("nontrivial");
        }
        "C16" => {
            ev.evaluations += g("ordered_pairs");
            ev.distinct_nontrivial += g("nontrivial");
        }
        _ => {
            ev.evaluations += g("triples") + g("quadruples");
            ev.distinct_nontrivial += g("triples") + g("quadruples");
        }
    }
    ev.samples.extend(out.samples.clone());
    ev.extra.insert("engine_d".into(), json!({"counters": out.counters}));
    for (k, v) in &out.extra {
        ev.extra.insert(k.clone(), v.clone());
    }
    ev.rule.push_str(&out.rule);
    ev.assumptions.push(ASSUME_SMALL.to_string());
}

fn replay_dispatch(prop: &str, case: &Value) -> Vec<(String, String, String, String)> {
    let sink = Sink::new(prop, "replay");
    match case["engine"].as_str().unwrap_or("") {
        "C" => engine_c::replay(prop, case, &sink),
        "A" => engine_a::replay(prop, case, &sink),
        "B" => engine_b::replay(prop, case, &sink),
        "B6" => engine_b6::replay(case, &sink),
        "D" => engine_d::replay(prop, case, &sink),
        other => eprintln!("replay: unknown engine {:?}", other),
    }
    sink.take()
        .into_iter()
        .map(|v| {
            let k = v.key.splitn(3, '|').nth(2).unwrap_or("").to_string();
            (v.clause, k, v.observed, v.expected)
        })
        .collect()
}

fn run_check(prop: &str, tier: &str) -> i32 {
    // C06 has its own per-case watchdog (20 s); every check gets the global progress monitor
    start_progress_monitor(prop.to_string(), std::time::Duration::from_secs(if prop == "C06" { 600 } else { 300 }));
    let sink = Sink::new(prop, tier);
    let mut ev = Evidence::new(level_of(prop));
    match prop {
        "C07" | "C08" | "C09" | "C10" | "C15" => part_c(prop, tier, &sink, &mut ev),
        "C01" | "C02" => part_a(prop, tier, &sink, &mut ev),
        "C03" | "C11" => {
            part_c(prop, tier, &sink, &mut ev);
            part_a(prop, tier, &sink, &mut ev);
        }
        "C13" => {
            part_c(prop, tier, &sink, &mut ev);
            part_a(prop, tier, &sink, &mut ev);
            part_b(prop, tier, &sink, &mut ev);
        }
        "C05" | "C12" | "C17" => part_b(prop, tier, &sink, &mut ev),
        "C04" | "C14" | "C16" | "C18" => part_d(prop, tier, &sink, &mut ev),
        "C06" => {
            part_c(prop, tier, &sink, &mut ev);
            let out = engine_b6::run_c06(tier, &sink);
            ev.evaluations += out.counters.get("operations_run_under_catch_unwind").copied().unwrap_or(0);
            ev.distinct_nontrivial += out.counters.get("distinct_ranges_reached").copied().unwrap_or(0) + out.counters.get("distinct_versions_collected").copied().unwrap_or(0);
            ev.samples.extend(out.samples.clone());
            ev.extra.insert("engine_b_c06".into(), json!({"counters": out.counters, "version_alphabet": engine_b::SIGMA_V, "range_alphabet": engine_b::SIGMA_R,
                "max_length_in_symbols": {"version": engine_b::n_for(tier, 'v'), "range": engine_b::n_for(tier, 'r')}, "watchdog_s": 20}));
            ev.extra.insert("growth_measurement".into(), out.growth);
            ev.rule.push_str(" || C06 monitor: every string of both input trees to the stated depth is parsed by both parsers under catch_unwind in a build with overflow checks and debug assertions; every accessor / diagnostic of every error and every unary operation of every value is run; every binary operation runs on every ordered pair of distinct reached ranges / versions; plus edit, limit, multi-line, multi-byte and 64 KiB families; a watchdog turns a case that does not return within 20 s into a violation; non-trivial = distinct values reached. The 'roughly linear time' clause is a labelled measurement (growth_measurement), not part of the exhaustive claim");
            ev.assumptions.push("the 'time roughly linear' clause of C06 cannot be decided by enumeration; it is covered by a measurement that alarms only at T(64KiB) > 512 x T(1KiB)".into());
        }
        _ => {
            eprintln!("unknown property {}", prop);
            return 2;
        }
    }
    let p = prop.to_string();
    finish(&sink, ev, &move |case| replay_dispatch(&p, case))
}

fn run_replay(prop: &str, path: &str) -> i32 {
    let txt = match std::fs::read_to_string(path) {
        Ok(t) => t,
        Err(e) => {
            eprintln!("cannot read {}: {}", path, e);
            return 2;
        }
    };
    let rec: Value = serde_json::from_str(&txt).expect("replay file is JSON");
    if rec["case"]["engine"].as_str() == Some("monitor") {
        // a no-progress record carries no single case: its replay is the quick check itself
        println!("replaying {} by re-running the quick check (no-progress record)", path);
        return run_check(prop, "quick");
    }
    let got = replay_dispatch(prop, &rec["case"]);
    println!("replaying {} (recorded key: {})", path, rec["key"]);
    let mut hit = false;
    for (clause, key, obs, exp) in &got {
        let full = format!("{}|{}|{}", prop, clause, key);
        let mark = if Some(full.as_str()) == rec["key"].as_str() {
            hit = true;
            "*"
        } else {
            " "
        };
        println!("{} {}\n    observed: {}\n    expected: {}", mark, full, obs, exp);
    }
    if hit {
        println!("VIOLATION property={} replay={}", prop, path);
        1
    } else {
        println!("recorded violation does not occur on the current tree");
        0
    }
}

fn main() {
    silence_panics();
    assert_eq!(nodejs_semver::MAX_SAFE_INTEGER, refmodel::MAX_SAFE);
    let args: Vec<String> = std::env::args().skip(1).collect();
    if args.is_empty() {
        eprintln!("usage: semver-mc <Cxx> [--tier quick|thorough] [--replay file]");
        std::process::exit(2);
    }
    if args[0] == "fixture-input" {
        println!("{}", serde_json::to_string(&engine_a::fixture_input()).unwrap());
        return;
    }
    if args[0] == "fixture-versions" {
        let u = match args.get(1).map(|s| s.as_str()) {
            Some("c04-quick") => engine_d::c04_universe("quick"),
            Some("c04-thorough") => engine_d::c04_universe("thorough"),
            _ => engine_d::c16_universe(),
        };
        println!("{}", serde_json::to_string(&json!({"versions": engine_d::universe_texts(&u)})).unwrap());
        return;
    }
    if args[0] == "c06-deep" {
        // child side of C06's wide-operand family (engine_b6::deep_family)
        silence_panics();
        engine_b6::deep_child(&args[1], args[2].parse().unwrap_or(1000));
        return;
    }
    if args[0] == "probe" {
        // semver-mc probe <range text>... : what the crate makes of each text (triage aid, not a check)
        for t in &args[1..] {
            match nodejs_semver::Range::parse(t) {
                Ok(r) => println!("{:?} => {}   bounds {}   min_version {:?}", t, r, engine_c::bound_key(&r.verif_bounds()), r.min_version().map(|v| v.to_string())),
                Err(e) => println!("{:?} => Err({:?} at {})", t, e.kind(), e.offset()),
            }
        }
        std::process::exit(0);
    }
    if args[0] == "oracle-crosscheck" {
        match engine_a::oracle_crosscheck() {
            Ok((cases, cells, dis, first)) => {
                println!("oracle cross-check vs node-semver 7.6.2 fixtures: programs={} cells={} disagreements={} {}", cases, cells, dis, first);
                std::process::exit(if dis == 0 { 0 } else { 2 });
            }
            Err(e) => {
                eprintln!("MACHINERY: oracle cross-check failed: {}", e);
                std::process::exit(2);
            }
        }
    }
    let prop = args[0].clone();
    let mut tier = std::env::var("VERIF_TIER").unwrap_or_else(|_| "quick".into());
    let mut replay: Option<String> = None;
    let mut i = 1;
    while i < args.len() {
        match args[i].as_str() {
            "--tier" => {
                tier = args[i + 1].clone();
                i += 2;
            }
            "--replay" => {
                replay = Some(args[i + 1].clone());
                i += 2;
            }
            _ => i += 1,
        }
    }
    let code = match std::panic::catch_unwind(|| if let Some(p) = &replay { run_replay(&prop, p) } else { run_check(&prop, &tier) }) {
        Ok(c) => c,
        Err(_) => escaped_panic(&prop),
    };
    std::process::exit(code);
}
