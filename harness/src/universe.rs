//! Finite version universes, bitsets over them, critical points.

use crate::refmodel::*;
use nodejs_semver::Version;
use std::cmp::Ordering;

#[derive(Clone, PartialEq, Eq, Hash, Debug)]
pub struct Bits(pub Vec<u64>);

impl Bits {
    pub fn zero(n: usize) -> Bits {
        Bits(vec![0; (n + 63) / 64])
    }
    #[inline]
    pub fn set(&mut self, i: usize) {
        self.0[i >> 6] |= 1u64 << (i & 63);
    }
    #[inline]
    pub fn get(&self, i: usize) -> bool {
        (self.0[i >> 6] >> (i & 63)) & 1 == 1
    }
    pub fn set_range(&mut self, lo: usize, hi: usize) {
        // [lo, hi)
        let mut i = lo;
        while i < hi {
            if i & 63 == 0 && i + 64 <= hi {
                self.0[i >> 6] = !0;
                i += 64;
            } else {
                self.set(i);
                i += 1;
            }
        }
    }
    pub fn and(&self, o: &Bits) -> Bits {
        Bits(self.0.iter().zip(&o.0).map(|(a, b)| a & b).collect())
    }
    pub fn or(&self, o: &Bits) -> Bits {
        Bits(self.0.iter().zip(&o.0).map(|(a, b)| a | b).collect())
    }
    pub fn andnot(&self, o: &Bits) -> Bits {
        Bits(self.0.iter().zip(&o.0).map(|(a, b)| a & !b).collect())
    }
    pub fn or_assign(&mut self, o: &Bits) {
        for (a, b) in self.0.iter_mut().zip(&o.0) {
            *a |= b;
        }
    }
    pub fn is_empty(&self) -> bool {
        self.0.iter().all(|w| *w == 0)
    }
    pub fn subset_of(&self, o: &Bits) -> bool {
        self.0.iter().zip(&o.0).all(|(a, b)| a & !b == 0)
    }
    pub fn first(&self) -> Option<usize> {
        for (k, w) in self.0.iter().enumerate() {
            if *w != 0 {
                return Some(k * 64 + w.trailing_zeros() as usize);
            }
        }
        None
    }
    pub fn count(&self) -> usize {
        self.0.iter().map(|w| w.count_ones() as usize).sum()
    }
    /// first index where the two differ
    pub fn first_diff(&self, o: &Bits) -> Option<usize> {
        for (k, (a, b)) in self.0.iter().zip(&o.0).enumerate() {
            let x = a ^ b;
            if x != 0 {
                return Some(k * 64 + x.trailing_zeros() as usize);
            }
        }
        None
    }
}

pub struct Universe {
    pub vs: Vec<Version>, // strictly increasing in reference order
    pub rel: Bits,
    pub pre: Bits,
}

impl Universe {
    pub fn new(mut vs: Vec<Version>) -> Universe {
        for v in vs.iter_mut() {
            v.build = vec![];
        }
        vs.sort_by(rcmp);
        vs.dedup_by(|a, b| req(a, b));
        let mut rel = Bits::zero(vs.len());
        let mut pre = Bits::zero(vs.len());
        for (i, v) in vs.iter().enumerate() {
            if is_pre(v) {
                pre.set(i)
            } else {
                rel.set(i)
            }
        }
        Universe { vs, rel, pre }
    }
    pub fn len(&self) -> usize {
        self.vs.len()
    }
    pub fn zero(&self) -> Bits {
        Bits::zero(self.vs.len())
    }
    /// first index i with vs[i] >= b
    pub fn lower_bound(&self, b: &Version) -> usize {
        self.vs.partition_point(|x| rcmp(x, b) == Ordering::Less)
    }
    /// first index i with vs[i] > b
    pub fn upper_bound(&self, b: &Version) -> usize {
        self.vs.partition_point(|x| rcmp(x, b) != Ordering::Greater)
    }
    pub fn index_of(&self, v: &Version) -> Option<usize> {
        let i = self.lower_bound(v);
        if i < self.vs.len() && req(&self.vs[i], v) {
            Some(i)
        } else {
            None
        }
    }
    /// index of a cut: versions with index >= idx are above the cut.
    pub fn cut_index(&self, c: &Cut) -> usize {
        match c {
            Cut::NegInf => 0,
            Cut::PosInf => self.vs.len(),
            Cut::At(v, 0) => self.lower_bound(v),
            Cut::At(v, _) => self.upper_bound(v),
        }
    }
    pub fn interval_bits(&self, iv: &Interval) -> Bits {
        let mut b = self.zero();
        let (lo, hi) = (self.cut_index(&iv.lo), self.cut_index(&iv.hi));
        if lo < hi {
            b.set_range(lo, hi);
        }
        b
    }
    /// universe prereleases with the same triple as `b`
    pub fn triple_pre_bits(&self, b: &Version) -> Bits {
        let mut out = self.zero();
        // prereleases of a triple are contiguous: [t-0 .. t)
        let lo = self.lower_bound(&ver(b.major, b.minor, b.patch, "0"));
        let hi = self.lower_bound(&ver(b.major, b.minor, b.patch, ""));
        if lo < hi {
            out.set_range(lo, hi);
        }
        out
    }
    /// bounds-based reference satisfaction of one interval as a bitset
    pub fn interval_sat_bits(&self, iv: &Interval) -> Bits {
        let w = self.interval_bits(iv);
        let mut gate = self.rel.clone();
        for b in [iv.lo_version(), iv.hi_version()].into_iter().flatten() {
            if is_pre(b) {
                gate.or_assign(&self.triple_pre_bits(b));
            }
        }
        w.and(&gate)
    }
}

/// The grid G(K): M,m,p in 0..=K, tags {none, 0, a, a.0, b}.
pub fn grid(k: u64, tags: &[&str]) -> Vec<Version> {
    let mut out = vec![];
    for ma in 0..=k {
        for mi in 0..=k {
            for pa in 0..=k {
                for t in tags {
                    out.push(ver(ma, mi, pa, t));
                }
            }
        }
    }
    out
}

pub const GRID_TAGS: [&str; 6] = ["", "0", "0.a", "a", "a.0", "b"];

/// CP1 critical points of a set of bound versions (DESIGN 2.2, T1/T2).
pub fn critical_points(bounds: &[Version]) -> Vec<Version> {
    let mut out = vec![ver(0, 0, 0, "0"), ver(0, 0, 0, "")];
    for b in bounds {
        let mut b0 = b.clone();
        b0.build = vec![];
        out.push(b0.clone());
        out.push(succ(&b0));
        let r = release_of(&b0);
        out.push(r.clone());
        out.push(ver(r.major, r.minor, r.patch, "0")); // t-0
        if r.patch < u64::MAX {
            out.push(ver(r.major, r.minor, r.patch + 1, "")); // rel+
            out.push(ver(r.major, r.minor, r.patch + 1, "0"));
        }
        if is_pre(&b0) {
            // a tag strictly above and strictly below within the same triple
            let mut hi = b0.clone();
            hi.pre_release = crate::refmodel::ids("zzzz");
            out.push(hi);
        }
    }
    out
}
