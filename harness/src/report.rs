//! Violation sink, known findings, replay files, evidence files, exit codes.

use serde_json::{json, Value};
use std::collections::{BTreeMap, BTreeSet};
use std::sync::Mutex;
use std::time::Instant;

pub const VERIF_DIR: &str = "/verif";

/// Where evidence/ and replays/ are written. Always /verif for the registered checks; the
/// seeded-change evaluation (tools/seedeval.sh) redirects it so that it never clobbers evidence.
/// Where fixtures/ and known_findings.json are read from. Always /verif for the registered checks;
/// the seeded-change evaluation points it at a frozen snapshot of /verif.
pub fn home_dir() -> String {
    std::env::var("SEMVER_MC_HOME").unwrap_or_else(|_| VERIF_DIR.to_string())
}

pub fn out_dir() -> String {
    std::env::var("SEMVER_MC_OUT").unwrap_or_else(|_| VERIF_DIR.to_string())
}

#[derive(Clone, Debug)]
pub struct Viol {
    pub clause: String,
    pub key: String,
    pub replay: Value,
    pub observed: String,
    pub expected: String,
}

pub struct Known {
    /// key -> finding title
    pub open_keys: BTreeMap<String, String>,
    /// finding title -> number of keys listed
    pub open_titles: BTreeMap<String, usize>,
    /// (key prefix naming the failing call site, finding title)
    pub open_prefixes: Vec<(String, String)>,
}

impl Known {
    pub fn listed(&self, key: &str) -> Option<&String> {
        if let Some(t) = self.open_keys.get(key) {
            return Some(t);
        }
        self.open_prefixes.iter().find(|(p, _)| key.starts_with(p.as_str())).map(|(_, t)| t)
    }
}

impl Known {
    pub fn load(prop: &str) -> Known {
        let mut k = Known {
            open_keys: BTreeMap::new(),
            open_titles: BTreeMap::new(),
            open_prefixes: vec![],
        };
        let path = format!("{}/known_findings.json", home_dir());
        let Ok(txt) = std::fs::read_to_string(&path) else {
            return k;
        };
        let v: Value = match serde_json::from_str(&txt) {
            Ok(v) => v,
            Err(e) => {
                eprintln!("MACHINERY: cannot parse {}: {}", path, e);
                std::process::exit(2);
            }
        };
        for f in v["findings"].as_array().cloned().unwrap_or_default() {
            if f["status"] == "open" && f["property"] == prop {
                let title = f["finding"].as_str().unwrap_or("?").to_string();
                let keys = f["keys"].as_array().cloned().unwrap_or_default();
                k.open_titles.insert(title.clone(), keys.len());
                for pf in f["key_prefixes"].as_array().cloned().unwrap_or_default() {
                    if let Some(s) = pf.as_str() {
                        k.open_prefixes.push((s.to_string(), title.clone()));
                    }
                }
                for key in keys {
                    if let Some(s) = key.as_str() {
                        k.open_keys.insert(s.to_string(), title.clone());
                    }
                }
            }
        }
        k
    }
}

pub struct Sink {
    pub prop: String,
    pub tier: String,
    pub known: Known,
    viols: Mutex<BTreeMap<String, Viol>>,
    total: Mutex<BTreeMap<String, u64>>, // per clause, including dropped
    cap_per_clause: usize,
    per_clause_kept: Mutex<BTreeMap<String, usize>>,
    prefix_matched: Mutex<BTreeMap<String, u64>>,
    pub start: Instant,
}

impl Sink {
    pub fn new(prop: &str, tier: &str) -> Sink {
        Sink {
            prop: prop.to_string(),
            tier: tier.to_string(),
            known: Known::load(prop),
            viols: Mutex::new(BTreeMap::new()),
            total: Mutex::new(BTreeMap::new()),
            cap_per_clause: std::env::var("VERIF_CAP").ok().and_then(|x| x.parse().ok()).unwrap_or(400),
            per_clause_kept: Mutex::new(BTreeMap::new()),
            prefix_matched: Mutex::new(BTreeMap::new()),
            start: Instant::now(),
        }
    }

    /// Record a violation. `key` must identify clause + exact operands + witness.
    pub fn report(&self, clause: &str, key: String, replay: Value, observed: String, expected: String) {
        let full_key = format!("{}|{}|{}", self.prop, clause, key);
        if !self.known.open_keys.contains_key(&full_key) {
            if let Some((_, title)) = self.known.open_prefixes.iter().find(|(p, _)| full_key.starts_with(p.as_str())) {
                // a listed call site: counted, not stored
                *self.prefix_matched.lock().unwrap().entry(title.clone()).or_insert(0) += 1;
                return;
            }
        }
        *self.total.lock().unwrap().entry(clause.to_string()).or_insert(0) += 1;
        let listed = self.known.open_keys.contains_key(&full_key);
        let mut v = self.viols.lock().unwrap();
        if v.contains_key(&full_key) {
            return;
        }
        if !listed {
            let mut kept = self.per_clause_kept.lock().unwrap();
            let c = kept.entry(clause.to_string()).or_insert(0);
            if *c >= self.cap_per_clause {
                return;
            }
            *c += 1;
        }
        v.insert(
            full_key.clone(),
            Viol {
                clause: clause.to_string(),
                key: full_key,
                replay,
                observed,
                expected,
            },
        );
    }

    pub fn violation_count(&self) -> u64 {
        self.total.lock().unwrap().values().sum()
    }

    pub fn take(&self) -> Vec<Viol> {
        let v = self.viols.lock().unwrap();
        let mut out: Vec<Viol> = v.values().cloned().collect();
        out.sort_by(|a, b| (a.key.len(), &a.key).cmp(&(b.key.len(), &b.key)));
        out
    }

    pub fn prefix_matches(&self) -> BTreeMap<String, u64> {
        self.prefix_matched.lock().unwrap().clone()
    }

    pub fn totals(&self) -> BTreeMap<String, u64> {
        self.total.lock().unwrap().clone()
    }
}

fn fnv(s: &str) -> u64 {
    let mut h: u64 = 0xcbf29ce484222325;
    for b in s.bytes() {
        h ^= b as u64;
        h = h.wrapping_mul(0x100000001b3);
    }
    h
}

pub struct Evidence {
    pub level: &'static str,
    pub evaluations: u64,
    pub distinct_nontrivial: u64,
    pub rule: String,
    pub samples: Vec<Value>,
    pub states: Option<u64>,
    pub transitions: Option<u64>,
    pub traces_validated: Option<u64>,
    pub exhaustive: bool,
    pub extra: BTreeMap<String, Value>,
    pub assumptions: Vec<String>,
}

impl Evidence {
    pub fn new(level: &'static str) -> Evidence {
        Evidence {
            level,
            evaluations: 0,
            distinct_nontrivial: 0,
            rule: String::new(),
            samples: vec![],
            states: None,
            transitions: None,
            traces_validated: None,
            exhaustive: true,
            extra: BTreeMap::new(),
            assumptions: vec![],
        }
    }
}

pub fn seed() -> i64 {
    std::env::var("VERIF_SEED")
        .ok()
        .and_then(|s| s.parse::<i64>().ok())
        .unwrap_or(0)
}

/// Finish a check: verify replays reproduce, print lines, write evidence, return exit code.
pub fn finish(
    sink: &Sink,
    mut ev: Evidence,
    replay_fn: &dyn Fn(&Value) -> Vec<(String, String, String, String)>,
) -> i32 {
    let viols = sink.take();
    let totals = sink.totals();
    let mut unlisted: Vec<&Viol> = vec![];
    let mut reproduced: BTreeMap<String, BTreeSet<String>> = BTreeMap::new();
    let machinery_error = false;
    let mut not_reproduced = 0u64;
    for v in &viols {
        if let Some(title) = sink.known.open_keys.get(&v.key) {
            reproduced.entry(title.clone()).or_default().insert(v.key.clone());
        } else {
            unlisted.push(v);
        }
    }
    // known findings
    let pm = sink.prefix_matches();
    for (title, n) in &sink.known.open_titles {
        let r = reproduced.get(title).map(|s| s.len()).unwrap_or(0);
        let by_site = pm.get(title).copied().unwrap_or(0);
        if sink.known.open_prefixes.iter().any(|(_, t)| t == title) {
            println!(
                "KNOWN-FINDING: property={} {} ({} explored inputs hit the listed call site; {}/{} listed inputs reproduced)",
                sink.prop, title, by_site, r, n
            );
        } else {
            println!(
                "KNOWN-FINDING: property={} {} ({}/{} listed inputs reproduced)",
                sink.prop, title, r, n
            );
        }
    }
    // unlisted: verify by replay twice, write replay file, print
    let dir = format!("{}/replays/{}", out_dir(), sink.prop);
    let mut printed = 0;
    let max_print = 25;
    for v in &unlisted {
        if printed >= max_print {
            break;
        }
        // re-execute single-threaded, twice
        let mut ok = true;
        for _ in 0..2 {
            let got = replay_fn(&v.replay);
            let want_key = &v.key;
            if !got
                .iter()
                .any(|(c, k, _, _)| &format!("{}|{}|{}", sink.prop, c, k) == want_key)
            {
                ok = false;
            }
        }
        if !ok {
            // The harness is deterministic and every oracle is a function of the case alone, so a
            // violation seen during exploration that does not recur when the same case is run in
            // isolation means the subject's answer depended on EARLIER calls (hidden state). That
            // breaks every property (all quantify over inputs, not histories): still a violation.
            println!(
                "NOTE: violation {} was observed during exploration but does not recur when its case is replayed in isolation: the result depends on earlier calls (hidden state in the crate)",
                v.key
            );
            not_reproduced += 1;
        }
        let _ = std::fs::create_dir_all(&dir);
        let path = format!("{}/{:016x}.json", dir, fnv(&v.key));
        let rec = json!({
            "reproduced_in_isolation": ok,
            "property": sink.prop,
            "clause": v.clause,
            "key": v.key,
            "tier": sink.tier,
            "case": v.replay,
            "observed": v.observed,
            "expected": v.expected,
        });
        let _ = std::fs::write(&path, serde_json::to_string_pretty(&rec).unwrap());
        println!("VIOLATION property={} replay={}", sink.prop, path);
        println!("  key: {}", v.key);
        println!("  observed: {}   expected: {}", v.observed, v.expected);
        printed += 1;
    }
    if unlisted.len() > printed {
        println!(
            "  ... {} more recorded violations not printed; totals per clause: {:?}",
            unlisted.len() - printed,
            totals
        );
    }
    if let Ok(path) = std::env::var("VERIF_DUMP") {
        let mut out = String::new();
        for v in &unlisted {
            out.push_str(&format!("{}\t{}\t{}\n", v.key, v.observed, v.expected));
        }
        let _ = std::fs::write(path, out);
    }
    let n_unlisted = unlisted.len();
    let wall = sink.start.elapsed().as_secs_f64();
    // evidence
    let mut cov = serde_json::Map::new();
    cov.insert("evaluations".into(), json!(ev.evaluations));
    cov.insert("distinct_nontrivial".into(), json!(ev.distinct_nontrivial));
    cov.insert("rule".into(), json!(ev.rule));
    if ev.samples.is_empty() {
        ev.samples.push(json!("(no sample recorded)"));
    }
    // VERIF_SEED only rotates which explored cases are shown as samples
    let s = seed();
    if s != 0 && ev.samples.len() > 1 {
        let k = (s.unsigned_abs() as usize) % ev.samples.len();
        ev.samples.rotate_left(k);
    }
    ev.samples.truncate(12);
    cov.insert("samples".into(), Value::Array(ev.samples.clone()));
    if let Some(x) = ev.states {
        cov.insert("states".into(), json!(x));
    }
    if let Some(x) = ev.transitions {
        cov.insert("transitions".into(), json!(x));
    }
    if let Some(x) = ev.traces_validated {
        cov.insert("traces_validated_against_impl".into(), json!(x));
    }
    cov.insert("exhaustive".into(), json!(ev.exhaustive));
    cov.insert(
        "violations_per_clause".into(),
        json!(totals),
    );
    cov.insert(
        "known_findings_reproduced".into(),
        json!(reproduced
            .iter()
            .map(|(k, v)| (k.clone(), v.len()))
            .collect::<BTreeMap<_, _>>()),
    );
    cov.insert("known_findings_matched_by_call_site".into(), json!(pm));
    cov.insert("violations_not_reproduced_in_isolation".into(), json!(not_reproduced));
    for (k, v) in &ev.extra {
        cov.insert(k.clone(), v.clone());
    }
    let doc = json!({
        "property_id": sink.prop,
        "tier": sink.tier,
        "seed": s,
        "level": ev.level,
        "coverage": Value::Object(cov),
        "assumptions": ev.assumptions,
        "wall_s": (wall * 1000.0).round() / 1000.0,
        "violations": n_unlisted,
    });
    let _ = std::fs::create_dir_all(format!("{}/evidence", out_dir()));
    let path = format!("{}/evidence/{}.json", out_dir(), sink.prop);
    let tmp = format!("{}.tmp", path);
    std::fs::write(&tmp, serde_json::to_string_pretty(&doc).unwrap()).expect("write evidence");
    std::fs::rename(&tmp, &path).expect("rename evidence");
    println!(
        "{} tier={} evaluations={} distinct_nontrivial={} states={:?} transitions={:?} violations={} (unlisted) wall={:.1}s",
        sink.prop, sink.tier, ev.evaluations, ev.distinct_nontrivial, ev.states, ev.transitions, n_unlisted, wall
    );
    if machinery_error {
        return 2;
    }
    if n_unlisted > 0 {
        1
    } else {
        0
    }
}

/// Run a closure, turning a panic into Err(message).
pub fn guarded<T>(f: impl FnOnce() -> T) -> Result<T, String> {
    match std::panic::catch_unwind(std::panic::AssertUnwindSafe(f)) {
        Ok(v) => Ok(v),
        Err(e) => {
            let msg = if let Some(s) = e.downcast_ref::<&str>() {
                s.to_string()
            } else if let Some(s) = e.downcast_ref::<String>() {
                s.clone()
            } else {
                "panic".to_string()
            };
            Err(msg.lines().next().unwrap_or("panic").chars().take(120).collect())
        }
    }
}

/// Global progress counter: every engine bumps it once per explored case. A monitor thread turns
/// "no progress for `limit`" into a hang violation of the running property (an operation of the
/// crate does not return), so that a non-terminating change cannot make a check run forever.
pub static HEART: std::sync::atomic::AtomicU64 = std::sync::atomic::AtomicU64::new(0);

#[inline]
pub fn beat() {
    HEART.fetch_add(1, std::sync::atomic::Ordering::Relaxed);
}

pub fn start_progress_monitor(prop: String, limit: std::time::Duration) {
    std::thread::spawn(move || {
        let mut last = (HEART.load(std::sync::atomic::Ordering::Relaxed), Instant::now());
        loop {
            std::thread::sleep(std::time::Duration::from_secs(2));
            let now = HEART.load(std::sync::atomic::Ordering::Relaxed);
            if now != last.0 {
                last = (now, Instant::now());
            } else if last.1.elapsed() > limit {
                let dir = format!("{}/replays/{}", out_dir(), prop);
                let _ = std::fs::create_dir_all(&dir);
                let path = format!("{}/no-progress.json", dir);
                let rec = json!({"property": prop, "clause": "hang", "key": format!("{}|hang|no explored case completed for {:?}", prop, limit),
                    "case": {"engine": "monitor"}, "observed": format!("no explored case completed for {:?} after {} cases: an operation of the crate does not return", limit, now), "expected": "every operation returns"});
                let _ = std::fs::write(&path, serde_json::to_string_pretty(&rec).unwrap());
                println!("VIOLATION property={} replay={}", prop, path);
                println!("  key: {}|hang|no explored case completed for {:?} (after {} cases)", prop, limit, now);
                std::process::exit(1);
            }
        }
    });
}

/// location and message of the most recent panic (set by the hook of `silence_panics`)
pub static LAST_PANIC: Mutex<Option<(String, String)>> = Mutex::new(None);

pub fn silence_panics() {
    std::panic::set_hook(Box::new(|info| {
        let loc = info.location().map(|l| format!("{}:{}", l.file(), l.line())).unwrap_or_default();
        let msg = if let Some(s) = info.payload().downcast_ref::<&str>() {
            s.to_string()
        } else if let Some(s) = info.payload().downcast_ref::<String>() {
            s.clone()
        } else {
            "panic".to_string()
        };
        if let Ok(mut g) = LAST_PANIC.try_lock() {
            *g = Some((loc, msg.chars().take(200).collect()));
        }
    }));
}

/// A panic that escaped every `guarded` call. If it was raised inside the crate under test (an
/// absolute path ending in src/lib.rs or src/range.rs outside the cargo registry) the operation the
/// check was exercising panicked: that is a violation of the running property, reported with a
/// record whose replay is the quick check itself. Anything else is a defect of the harness (exit 2).
pub fn escaped_panic(prop: &str) -> i32 {
    let last = LAST_PANIC.lock().ok().and_then(|g| g.clone());
    let (loc, msg) = last.unwrap_or_default();
    let file = loc.rsplit_once(':').map(|x| x.0).unwrap_or("");
    let in_crate = file.starts_with('/') && !file.contains(".cargo/registry") && !file.contains("/rustc/") && (file.ends_with("/src/lib.rs") || file.ends_with("/src/range.rs"));
    if in_crate {
        let dir = format!("{}/replays/{}", out_dir(), prop);
        let _ = std::fs::create_dir_all(&dir);
        let path = format!("{}/escaped-panic.json", dir);
        let rec = json!({"property": prop, "clause": "panic", "key": format!("{}|panic|{}", prop, loc),
            "case": {"engine": "monitor"}, "observed": format!("an operation of the crate panicked at {}: {}", loc, msg), "expected": "returns"});
        let _ = std::fs::write(&path, serde_json::to_string_pretty(&rec).unwrap());
        println!("VIOLATION property={} replay={}", prop, path);
        println!("  key: {}|panic|{}  ({})", prop, loc, msg);
        1
    } else {
        eprintln!("MACHINERY: the harness panicked at {}: {}", loc, msg);
        2
    }
}
