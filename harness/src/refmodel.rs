//! Reference model: SemVer 2.0.0 section 11 order, immediate successor, cuts,
//! comparators and npm satisfaction — written directly from the specification
//! texts.  It treats `nodejs_semver::Version` / `Identifier` as *plain data*
//! (public fields only) and never calls `Version::cmp`, `==`, `Hash`,
//! `Display`, the parsers, or anything in `range.rs` for a verdict.

use nodejs_semver::{Identifier, Version};
use std::cmp::Ordering;

// ---------------------------------------------------------------- order ---

pub fn id_cmp(a: &Identifier, b: &Identifier) -> Ordering {
    use Identifier::*;
    match (a, b) {
        (Numeric(x), Numeric(y)) => {
            if x < y {
                Ordering::Less
            } else if x > y {
                Ordering::Greater
            } else {
                Ordering::Equal
            }
        }
        (Numeric(_), AlphaNumeric(_)) => Ordering::Less,
        (AlphaNumeric(_), Numeric(_)) => Ordering::Greater,
        (AlphaNumeric(x), AlphaNumeric(y)) => {
            // ASCII sort order, byte by byte; a strict prefix is lower.
            let (x, y) = (x.as_bytes(), y.as_bytes());
            let mut i = 0;
            loop {
                match (x.get(i), y.get(i)) {
                    (None, None) => return Ordering::Equal,
                    (None, Some(_)) => return Ordering::Less,
                    (Some(_), None) => return Ordering::Greater,
                    (Some(p), Some(q)) => {
                        if p < q {
                            return Ordering::Less;
                        }
                        if p > q {
                            return Ordering::Greater;
                        }
                    }
                }
                i += 1;
            }
        }
    }
}

fn num_cmp(a: u64, b: u64) -> Ordering {
    if a < b {
        Ordering::Less
    } else if a > b {
        Ordering::Greater
    } else {
        Ordering::Equal
    }
}

/// SemVer 2.0.0 section 11 precedence. Build metadata is ignored.
pub fn rcmp(a: &Version, b: &Version) -> Ordering {
    for (x, y) in [(a.major, b.major), (a.minor, b.minor), (a.patch, b.patch)] {
        let o = num_cmp(x, y);
        if o != Ordering::Equal {
            return o;
        }
    }
    match (a.pre_release.is_empty(), b.pre_release.is_empty()) {
        (true, true) => return Ordering::Equal,
        (true, false) => return Ordering::Greater, // a release is above its prereleases
        (false, true) => return Ordering::Less,
        _ => {}
    }
    let (p, q) = (&a.pre_release, &b.pre_release);
    let mut i = 0;
    loop {
        match (p.get(i), q.get(i)) {
            (None, None) => return Ordering::Equal,
            (None, Some(_)) => return Ordering::Less, // strict prefix is lower
            (Some(_), None) => return Ordering::Greater,
            (Some(x), Some(y)) => {
                let o = id_cmp(x, y);
                if o != Ordering::Equal {
                    return o;
                }
            }
        }
        i += 1;
    }
}

pub fn req(a: &Version, b: &Version) -> bool {
    rcmp(a, b) == Ordering::Equal
}
pub fn rlt(a: &Version, b: &Version) -> bool {
    rcmp(a, b) == Ordering::Less
}
pub fn rle(a: &Version, b: &Version) -> bool {
    rcmp(a, b) != Ordering::Greater
}

pub fn same_triple(a: &Version, b: &Version) -> bool {
    a.major == b.major && a.minor == b.minor && a.patch == b.patch
}

pub fn is_pre(v: &Version) -> bool {
    !v.pre_release.is_empty()
}

/// Field-wise identity of all five fields (used by round-trip oracles).
pub fn same_fields(a: &Version, b: &Version) -> bool {
    same_triple(a, b) && ids_same(&a.pre_release, &b.pre_release) && ids_same(&a.build, &b.build)
}

pub fn ids_same(a: &[Identifier], b: &[Identifier]) -> bool {
    if a.len() != b.len() {
        return false;
    }
    a.iter().zip(b.iter()).all(|(x, y)| match (x, y) {
        (Identifier::Numeric(p), Identifier::Numeric(q)) => p == q,
        (Identifier::AlphaNumeric(p), Identifier::AlphaNumeric(q)) => p.as_bytes() == q.as_bytes(),
        _ => false,
    })
}

// ---------------------------------------------------------- construction ---

pub fn ident(s: &str) -> Identifier {
    if !s.is_empty() && s.bytes().all(|b| b.is_ascii_digit()) {
        // value of the decimal string, if it fits u64
        let mut n: u128 = 0;
        let mut ok = true;
        for b in s.bytes() {
            n = n * 10 + (b - b'0') as u128;
            if n > u64::MAX as u128 {
                ok = false;
                break;
            }
        }
        if ok {
            return Identifier::Numeric(n as u64);
        }
    }
    Identifier::AlphaNumeric(s.to_string())
}

pub fn ids(s: &str) -> Vec<Identifier> {
    if s.is_empty() {
        vec![]
    } else {
        s.split('.').map(ident).collect()
    }
}

/// Build a version from numbers and dotted identifier strings ("" = none).
pub fn ver(major: u64, minor: u64, patch: u64, pre: &str) -> Version {
    Version {
        major,
        minor,
        patch,
        pre_release: ids(pre),
        build: vec![],
    }
}

pub fn verb(major: u64, minor: u64, patch: u64, pre: &str, build: &str) -> Version {
    Version {
        major,
        minor,
        patch,
        pre_release: ids(pre),
        build: ids(build),
    }
}

/// Immediate successor in section-11 order (nothing lies strictly between).
pub fn succ(v: &Version) -> Version {
    let mut s = v.clone();
    s.build = vec![];
    if v.pre_release.is_empty() {
        s.patch = v.patch + 1;
        s.pre_release = vec![Identifier::Numeric(0)];
    } else {
        s.pre_release.push(Identifier::Numeric(0));
    }
    s
}

pub fn release_of(v: &Version) -> Version {
    ver(v.major, v.minor, v.patch, "")
}

/// Own printer (never `Display`).
pub fn id_text(i: &Identifier) -> String {
    match i {
        Identifier::Numeric(n) => {
            // decimal without std formatting of the crate types
            let mut n = *n;
            if n == 0 {
                return "0".into();
            }
            let mut d = vec![];
            while n > 0 {
                d.push(b'0' + (n % 10) as u8);
                n /= 10;
            }
            d.reverse();
            String::from_utf8(d).unwrap()
        }
        Identifier::AlphaNumeric(s) => s.clone(),
    }
}

pub fn vtext(v: &Version) -> String {
    let mut s = format!("{}.{}.{}", v.major, v.minor, v.patch);
    for (i, id) in v.pre_release.iter().enumerate() {
        s.push(if i == 0 { '-' } else { '.' });
        s.push_str(&id_text(id));
    }
    s
}

pub fn vtext_full(v: &Version) -> String {
    let mut s = vtext(v);
    for (i, id) in v.build.iter().enumerate() {
        s.push(if i == 0 { '+' } else { '.' });
        s.push_str(&id_text(id));
    }
    s
}

// ------------------------------------------------------------------ cuts ---

/// A cut of the version line: everything below `(v,0)` is `< v`, everything
/// below `(v,1)` is `<= v`.
#[derive(Clone, Debug)]
pub enum Cut {
    NegInf,
    At(Version, u8),
    PosInf,
}

pub fn cut_cmp(a: &Cut, b: &Cut) -> Ordering {
    use Cut::*;
    match (a, b) {
        (NegInf, NegInf) | (PosInf, PosInf) => Ordering::Equal,
        (NegInf, _) | (_, PosInf) => Ordering::Less,
        (_, NegInf) | (PosInf, _) => Ordering::Greater,
        (At(v, s), At(w, t)) => {
            let o = rcmp(v, w);
            if o != Ordering::Equal {
                o
            } else {
                s.cmp(t)
            }
        }
    }
}

pub fn cut_text(c: &Cut) -> String {
    match c {
        Cut::NegInf => "-inf".into(),
        Cut::PosInf => "+inf".into(),
        Cut::At(v, s) => format!("{}{}", vtext(v), if *s == 0 { "-" } else { "+" }),
    }
}

/// Interval as a pair of cuts: v is inside iff lower <= (v,0) and (v,1) <= upper.
#[derive(Clone, Debug)]
pub struct Interval {
    pub lo: Cut,
    pub hi: Cut,
}

impl Interval {
    pub fn contains(&self, v: &Version) -> bool {
        cut_cmp(&self.lo, &Cut::At(v.clone(), 0)) != Ordering::Greater
            && cut_cmp(&Cut::At(v.clone(), 1), &self.hi) != Ordering::Greater
    }
    pub fn lo_version(&self) -> Option<&Version> {
        match &self.lo {
            Cut::At(v, _) => Some(v),
            _ => None,
        }
    }
    pub fn hi_version(&self) -> Option<&Version> {
        match &self.hi {
            Cut::At(v, _) => Some(v),
            _ => None,
        }
    }
    /// bounds-based prerelease gate (reference statement of C03 on bounds):
    /// inside, and (release, or a bound carries a tag on the same triple).
    pub fn sat(&self, v: &Version) -> bool {
        if !self.contains(v) {
            return false;
        }
        if !is_pre(v) {
            return true;
        }
        for b in [self.lo_version(), self.hi_version()].into_iter().flatten() {
            if is_pre(b) && same_triple(b, v) {
                return true;
            }
        }
        false
    }
    pub fn text(&self) -> String {
        format!("({},{})", cut_text(&self.lo), cut_text(&self.hi))
    }
}

// ----------------------------------------------------------- comparators ---

#[derive(Clone, Copy, Debug, PartialEq, Eq)]
pub enum COp {
    Lt,
    Le,
    Gt,
    Ge,
    Eq,
}

#[derive(Clone, Debug)]
pub struct Comparator {
    pub op: COp,
    pub v: Version,
}

impl Comparator {
    pub fn test(&self, x: &Version) -> bool {
        let o = rcmp(x, &self.v);
        match self.op {
            COp::Lt => o == Ordering::Less,
            COp::Le => o != Ordering::Greater,
            COp::Gt => o == Ordering::Greater,
            COp::Ge => o != Ordering::Less,
            COp::Eq => o == Ordering::Equal,
        }
    }
    pub fn text(&self) -> String {
        let op = match self.op {
            COp::Lt => "<",
            COp::Le => "<=",
            COp::Gt => ">",
            COp::Ge => ">=",
            COp::Eq => "=",
        };
        format!("{}{}", op, vtext(&self.v))
    }
}

/// `within`: every comparator test passes (pure bounds).
pub fn set_within(set: &[Comparator], x: &Version) -> bool {
    set.iter().all(|c| c.test(x))
}

/// npm satisfaction of one comparator set (README, "Prerelease Tags").
pub fn set_sat(set: &[Comparator], x: &Version) -> bool {
    if !set_within(set, x) {
        return false;
    }
    if !is_pre(x) {
        return true;
    }
    set.iter().any(|c| is_pre(&c.v) && same_triple(&c.v, x))
}

pub fn range_sat(r: &[Vec<Comparator>], x: &Version) -> bool {
    r.iter().any(|s| set_sat(s, x))
}
pub fn range_within(r: &[Vec<Comparator>], x: &Version) -> bool {
    r.iter().any(|s| set_within(s, x))
}

/// true iff the set contains the literal comparator `>=0.0.0` (node-semver
/// rewrites it to "any"; cells on prereleases of 0.0.0 are don't-care).
pub fn set_has_ge_zero(set: &[Comparator]) -> bool {
    set.iter().any(|c| {
        c.op == COp::Ge && c.v.major == 0 && c.v.minor == 0 && c.v.patch == 0 && !is_pre(&c.v)
    })
}

pub const MAX_SAFE: u64 = 900_719_925_474_099; // the crate's constant (checked at start-up)
