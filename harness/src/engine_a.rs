//! Engine A — grammar-bounded exploration of range *programs* (ASTs), rendered
//! with bounded spelling deviations, parsed by the real `Range::parse`, and
//! compared on a complete version universe with the reference semantics of the
//! AST (DESIGN 2.3).

use crate::ast::*;
use crate::engine_c::{bound_key, check_roundtrip, intervals_of, real_sat_bits, within_bits};
use crate::refmodel::*;
use crate::report::*;
use crate::universe::*;
use nodejs_semver::{Range, Version};
use rayon::prelude::*;
use serde_json::{json, Value};
use std::collections::BTreeMap;
use std::sync::atomic::{AtomicU64, Ordering as AO};

pub struct Alpha {
    pub comps: Vec<Cmp>,
    pub quals: Vec<(&'static str, &'static str)>,
    pub red_quals: Vec<(&'static str, &'static str)>,
    pub grid_k: u64,
    pub thorough: bool,
}

pub fn alpha(tier: &str) -> Alpha {
    if tier == "thorough" {
        Alpha {
            comps: vec![Cmp::X, Cmp::N(0), Cmp::N(1), Cmp::N(2)],
            quals: vec![("", ""), ("0", ""), ("a", ""), ("a.0", ""), ("0.a", ""), ("", "b"), ("a", "b")],
            red_quals: vec![("", ""), ("0", ""), ("a", ""), ("0.a", "")],
            grid_k: 3,
            thorough: true,
        }
    } else {
        Alpha {
            comps: vec![Cmp::X, Cmp::N(0), Cmp::N(1)],
            quals: vec![("", ""), ("0", ""), ("a", ""), ("0.a", ""), ("", "b")],
            red_quals: vec![("", ""), ("a", ""), ("0.a", "")],
            grid_k: 2,
            thorough: false,
        }
    }
}

pub struct EngA {
    pub utag: &'static str, // which universe ("main", "numeric", "limit"): recorded in replay cases
    pub tier: String,
    pub al: Alpha,
    pub u: Universe,
    pub all_partials: Vec<Partial>,
    pub nobuild_partials: Vec<Partial>,
    pub reduced: Vec<(Op, Partial)>,
    pub core: Vec<(Op, Partial)>,
    pub alts: Vec<Alt>,
}

fn no_build(ps: &[Partial]) -> Vec<Partial> {
    ps.iter().filter(|p| p.build.is_empty()).cloned().collect()
}

impl EngA {
    pub fn new(tier: &str) -> EngA {
        let al = alpha(tier);
        let all_partials = partials(&al.comps, &al.quals);
        let nobuild_partials = no_build(&all_partials);
        let red_partials = partials(&al.comps, &al.red_quals);
        let red_ops = [Op::Bare, Op::Eq, Op::Lt, Op::Le, Op::Gt, Op::Ge, Op::Tilde, Op::Caret];
        let mut reduced = vec![];
        for op in red_ops {
            for p in &red_partials {
                reduced.push((op, p.clone()));
            }
        }
        // core: a small comparator set realising every operator on full / partial / wildcard / tagged operands
        let core_partials: Vec<Partial> = {
            let n = |v: &[Cmp], pre: &str| Partial { c: v.to_vec(), pre: pre.into(), build: String::new() };
            let mut v = vec![
                n(&[Cmp::N(1)], ""),
                n(&[Cmp::N(1), Cmp::N(0)], ""),
                n(&[Cmp::N(1), Cmp::N(0), Cmp::N(0)], ""),
                n(&[Cmp::N(1), Cmp::N(0), Cmp::N(0)], "a"),
                n(&[Cmp::N(0), Cmp::N(1), Cmp::N(0)], ""),
                n(&[Cmp::N(1), Cmp::X], ""),
                n(&[Cmp::X], ""),
                n(&[Cmp::N(0), Cmp::N(0), Cmp::N(0)], "a"), // prereleases of 0.0.0 sort below every release
            ];
            if al.thorough {
                v.push(n(&[Cmp::N(2), Cmp::N(0), Cmp::N(0)], "0"));
                v.push(n(&[Cmp::N(0), Cmp::N(0), Cmp::N(1)], ""));
            }
            v
        };
        let mut core = vec![];
        for op in red_ops {
            for p in &core_partials {
                core.push((op, p.clone()));
            }
        }
        // alternatives for `a || b`: single comparators from the core, two-comparator sets
        // (satisfiable and unsatisfiable), hyphen forms
        let mut alts: Vec<Alt> = vec![];
        for (op, p) in &core {
            alts.push(Alt::Set(vec![Simple::P(*op, p.clone())]));
        }
        let two: Vec<(usize, usize)> = {
            let mut t = vec![];
            let n = core.len();
            let step = if al.thorough { 5 } else { 11 };
            let mut i = 0;
            while i < n {
                let mut j = 0;
                while j < n {
                    t.push((i, j));
                    j += step;
                }
                i += step;
            }
            t
        };
        for (i, j) in two {
            alts.push(Alt::Set(vec![
                Simple::P(core[i].0, core[i].1.clone()),
                Simple::P(core[j].0, core[j].1.clone()),
            ]));
        }
        for a in &core_partials {
            for b in &core_partials {
                alts.push(Alt::Hyphen(a.clone(), b.clone()));
            }
        }
        // universe: grid + CP1 of every comparator version the alphabet can desugar to
        let mut bvs: Vec<Version> = vec![];
        for p in &all_partials {
            for op in ALL_OPS {
                for c in desugar_simple(op, p) {
                    bvs.push(c.v);
                }
            }
            for c in desugar_hyphen(p, p) {
                bvs.push(c.v);
            }
        }
        let mut vs = grid(al.grid_k, &GRID_TAGS);
        vs.extend(critical_points(&bvs));
        vs.push(ver(al.grid_k + 3, 0, 0, ""));
        let u = Universe::new(vs);
        EngA { utag: "main", tier: tier.to_string(), al, u, all_partials, nobuild_partials, reduced, core, alts }
    }

    pub fn ref_bits(&self, sets: &[Vec<Comparator>]) -> Bits {
        // evaluated pointwise with the comparator tests (no interval shortcut)
        let mut b = self.u.zero();
        for (i, v) in self.u.vs.iter().enumerate() {
            if range_sat(sets, v) {
                b.set(i);
            }
        }
        b
    }
}

// ---------------------------------------------------------- (de)serialise ---

fn intern(s: &str) -> &'static str {
    for k in ["foo", "~1.y", "1.2.3.4", "1.2beta4", "x|y", "|", "-", ">=", " ", "  ", "\t", " \t ", "\t||\t", "X", "*", "x", "||", " ||", "|| ", "  ||  ", " || "] {
        if k == s {
            return k;
        }
    }
    Box::leak(s.to_string().into_boxed_str())
}

fn partial_json(p: &Partial) -> Value {
    let c: Vec<Value> = p.c.iter().map(|c| match c { Cmp::X => json!("x"), Cmp::N(n) => json!(n) }).collect();
    json!({"c": c, "pre": p.pre, "build": p.build})
}
fn partial_from(v: &Value) -> Partial {
    Partial {
        c: v["c"].as_array().unwrap().iter().map(|x| if x.is_string() { Cmp::X } else { Cmp::N(x.as_u64().unwrap()) }).collect(),
        pre: v["pre"].as_str().unwrap().to_string(),
        build: v["build"].as_str().unwrap().to_string(),
    }
}
pub fn prog_json(p: &Prog) -> Value {
    Value::Array(
        p.iter()
            .map(|a| match a {
                Alt::Hyphen(x, y) => json!({"hyphen": [partial_json(x), partial_json(y)]}),
                Alt::Set(s) => json!({"set": s.iter().map(|s| match s {
                    Simple::Garbage(g) => json!({"garbage": g}),
                    Simple::P(op, p) => json!({"op": op.text(), "p": partial_json(p)}),
                }).collect::<Vec<_>>()}),
            })
            .collect(),
    )
}
pub fn prog_from(v: &Value) -> Prog {
    v.as_array()
        .unwrap()
        .iter()
        .map(|a| {
            if let Some(h) = a.get("hyphen") {
                Alt::Hyphen(partial_from(&h[0]), partial_from(&h[1]))
            } else {
                Alt::Set(
                    a["set"]
                        .as_array()
                        .unwrap()
                        .iter()
                        .map(|s| {
                            if let Some(g) = s.get("garbage") {
                                Simple::Garbage(intern(g.as_str().unwrap()))
                            } else {
                                let op = ALL_OPS.iter().find(|o| o.text() == s["op"].as_str().unwrap()).copied().unwrap();
                                Simple::P(op, partial_from(&s["p"]))
                            }
                        })
                        .collect(),
                )
            }
        })
        .collect()
}
pub fn dev_json(d: &Dev) -> Value {
    match d {
        Dev::LeadZero { alt, simple, side, comp } => json!({"k":"lz","alt":alt,"simple":simple,"side":side,"comp":comp}),
        Dev::VPrefix { alt, simple, side } => json!({"k":"v","alt":alt,"simple":simple,"side":side}),
        Dev::OpGap { alt, simple, gap } => json!({"k":"gap","alt":alt,"simple":simple,"s":gap}),
        Dev::Wild { alt, simple, side, comp, ch } => json!({"k":"wild","alt":alt,"simple":simple,"side":side,"comp":comp,"s":ch}),
        Dev::NoTagHyphen { alt, simple, side } => json!({"k":"nth","alt":alt,"simple":simple,"side":side}),
        Dev::Garbage { alt, pos, tok } => json!({"k":"garbage","alt":alt,"pos":pos,"s":tok}),
        Dev::Sep { alt, pos, s } => json!({"k":"sep","alt":alt,"pos":pos,"s":s}),
        Dev::TabLead => json!({"k":"tablead"}),
        Dev::TabTrail => json!({"k":"tabtrail"}),
        Dev::VSpace { alt, simple, side } => json!({"k":"vspace","alt":alt,"simple":simple,"side":side}),
        Dev::Or { idx, s } => json!({"k":"or","idx":idx,"s":s}),
        Dev::HyphenSep { alt } => json!({"k":"hsep","alt":alt}),
        Dev::Lead => json!({"k":"lead"}),
        Dev::Trail => json!({"k":"trail"}),
    }
}
pub fn dev_from(v: &Value) -> Dev {
    let g = |k: &str| v[k].as_u64().unwrap_or(0) as usize;
    let s = || intern(v["s"].as_str().unwrap_or(""));
    match v["k"].as_str().unwrap() {
        "lz" => Dev::LeadZero { alt: g("alt"), simple: g("simple"), side: g("side"), comp: g("comp") },
        "v" => Dev::VPrefix { alt: g("alt"), simple: g("simple"), side: g("side") },
        "gap" => Dev::OpGap { alt: g("alt"), simple: g("simple"), gap: s() },
        "wild" => Dev::Wild { alt: g("alt"), simple: g("simple"), side: g("side"), comp: g("comp"), ch: s() },
        "nth" => Dev::NoTagHyphen { alt: g("alt"), simple: g("simple"), side: g("side") },
        "garbage" => Dev::Garbage { alt: g("alt"), pos: g("pos"), tok: s() },
        "sep" => Dev::Sep { alt: g("alt"), pos: g("pos"), s: s() },
        "tablead" => Dev::TabLead,
        "tabtrail" => Dev::TabTrail,
        "vspace" => Dev::VSpace { alt: g("alt"), simple: g("simple"), side: g("side") },
        "or" => Dev::Or { idx: g("idx"), s: s() },
        "hsep" => Dev::HyphenSep { alt: g("alt") },
        "lead" => Dev::Lead,
        _ => Dev::Trail,
    }
}

// ------------------------------------------------------------- C01 check ---

#[derive(Default)]
pub struct ACounters {
    pub programs: AtomicU64,
    pub nontrivial: AtomicU64,
    pub expected_unsat: AtomicU64,
    pub parse_err: AtomicU64,
    pub dontcare_cells: AtomicU64,
    pub cells: AtomicU64,
    pub deviated: AtomicU64,
    pub skipped_known_component: AtomicU64,
    pub pairs: AtomicU64,
}

pub struct ProgEval {
    pub text: String,
    pub parsed: Option<Range>,
    pub err: Option<String>,
    pub sat: Option<Bits>,
}

impl EngA {
    pub fn eval_text(&self, text: &str) -> ProgEval {
        match guarded(|| Range::parse(text)) {
            Ok(Ok(r)) => {
                let sat = real_sat_bits(&self.u, &r).ok();
                ProgEval { text: text.to_string(), parsed: Some(r), err: None, sat }
            }
            Ok(Err(e)) => ProgEval { text: text.to_string(), parsed: None, err: Some(format!("{}", e.kind())), sat: None },
            Err(msg) => ProgEval { text: text.to_string(), parsed: None, err: Some(format!("panic: {}", msg)), sat: None },
        }
    }

    fn case(&self, prog: &Prog, devs: &[Dev]) -> Value {
        json!({"engine":"A","kind":"prog","universe":self.utag,"prog":prog_json(prog),"devs":devs.iter().map(dev_json).collect::<Vec<_>>(),"tier":self.tier})
    }

    /// C01 oracle for one (program, deviation set). Returns the evaluation for reuse.
    pub fn check_c01(&self, prog: &Prog, devs: &[Dev], sink: &Sink, c: &ACounters, base_key: Option<&(String, Bits)>) -> Option<(String, Bits)> {
        crate::report::beat();
        let text = render(prog, devs);
        c.programs.fetch_add(1, AO::Relaxed);
        if !devs.is_empty() {
            c.deviated.fetch_add(1, AO::Relaxed);
        }
        let sets = desugar(&effective(prog, devs));
        let (strict, loose) = match &sets {
            Some(s) => (self.ref_bits(s), self.ref_bits(&loosen(s))),
            None => (self.u.zero(), self.u.zero()),
        };
        let care = {
            let x = Bits(strict.0.iter().zip(&loose.0).map(|(a, b)| !(a ^ b)).collect());
            x
        };
        c.cells.fetch_add(self.u.len() as u64, AO::Relaxed);
        let dc = Bits(strict.0.iter().zip(&loose.0).map(|(a, b)| a ^ b).collect()).count();
        c.dontcare_cells.fetch_add(dc as u64, AO::Relaxed);
        let n = strict.count();
        if n > 0 && n < self.u.len() {
            c.nontrivial.fetch_add(1, AO::Relaxed);
        }
        if n == 0 {
            c.expected_unsat.fetch_add(1, AO::Relaxed);
        }
        match guarded(|| Range::parse(&text)) {
            Ok(Ok(r)) => {
                let key = bound_key(&r.verif_bounds());
                // within one deviation family an identical Range value needs no second evaluation
                let sat = match base_key {
                    Some((k, bits)) if *k == key => bits.clone(),
                    _ => match real_sat_bits(&self.u, &r) {
                        Ok(b) => b,
                        Err(msg) => {
                            sink.report("panic", format!("text={}", text), self.case(prog, devs), format!("satisfies panics: {}", msg), "returns".into());
                            return None;
                        }
                    },
                };
                // the other entry points agree: str::parse::<Range>, serde Deserialize, Version::satisfies
                if devs.len() <= 1 {
                    let n = self.u.len();
                    let via_fromstr = guarded(|| text.parse::<Range>()).ok().and_then(|x| x.ok()).map(|x| bound_key(&x.verif_bounds()));
                    let via_serde = guarded(|| serde_json::from_value::<Range>(serde_json::Value::String(text.clone()))).ok().and_then(|x| x.ok()).map(|x| bound_key(&x.verif_bounds()));
                    let vs_ok = [0usize, n / 3, n / 2, n - 1].iter().all(|&i| guarded(|| self.u.vs[i].satisfies(&r)).map(|x| x == sat.get(i)).unwrap_or(false));
                    if via_fromstr.as_deref() != Some(key.as_str()) || via_serde.as_deref() != Some(key.as_str()) || !vs_ok {
                        sink.report("entry-points", format!("text={}", text), self.case(prog, devs), format!("Range::parse={} FromStr={:?} Deserialize={:?} Version::satisfies agrees={}", key, via_fromstr, via_serde, vs_ok), "all entry points agree".into());
                    }
                }
                // history independence: parsing the same text again, after all the satisfies calls,
                // gives the same value and the same answers
                if let Ok(Ok(r2)) = guarded(|| Range::parse(&text)) {
                    let k2 = bound_key(&r2.verif_bounds());
                    let n = self.u.len();
                    let probe_ok = [0usize, n / 2, n - 1].iter().all(|&i| guarded(|| r2.satisfies(&self.u.vs[i])).map(|x| x == sat.get(i)).unwrap_or(false));
                    if k2 != key || !probe_ok {
                        sink.report("history", format!("text={}", text), self.case(prog, devs), format!("first parse {} later parse {} (same answers: {})", key, k2, probe_ok), "the same value and answers for the same text".into());
                    }
                }
                let diff = Bits(sat.0.iter().zip(&strict.0).zip(&care.0).map(|((a, b), m)| (a ^ b) & m).collect());
                if let Some(i) = diff.first() {
                    let v = &self.u.vs[i];
                    let clause = if sets.is_none() { "parse-ok-junk" } else { "sat" };
                    // call-site tag: every disagreeing cell is a prerelease of M.0.0 wrongly admitted
                    // below a written `<M` / `<M.x` (the `(LessThan, major-only)` arm keeps `<M.0.0`)
                    let tag = if lt_major_site(prog, &self.u, &diff, &sat) { "site=lt-major-only|" } else { "" };
                    sink.report(
                        clause,
                        format!("{}text={}|v={}", tag, text, vtext(v)),
                        self.case(prog, devs),
                        format!("parsed as {}; satisfies({})={}", key, vtext(v), sat.get(i)),
                        format!("{} (npm: {})", strict.get(i), sets.as_ref().map(|s| s.iter().map(|x| x.iter().map(|c| c.text()).collect::<Vec<_>>().join(" ")).collect::<Vec<_>>().join(" || ")).unwrap_or("invalid".into())),
                    );
                }
                Some((key, sat))
            }
            Ok(Err(e)) => {
                c.parse_err.fetch_add(1, AO::Relaxed);
                if sets.is_some() && !strict.is_empty() && !loose.is_empty() {
                    let i = strict.first().unwrap();
                    sink.report(
                        "parse-fail",
                        format!("text={}|v={}", text, vtext(&self.u.vs[i])),
                        self.case(prog, devs),
                        format!("Err({})", e.kind()),
                        format!("Ok, admitting e.g. {}", vtext(&self.u.vs[i])),
                    );
                }
                None
            }
            Err(msg) => {
                sink.report("panic", format!("text={}", text), self.case(prog, devs), format!("parse panics: {}", msg), "returns".into());
                None
            }
        }
    }

    pub fn level1(&self) -> Vec<Prog> {
        let mut out = vec![];
        for op in ALL_OPS {
            for p in &self.all_partials {
                out.push(prog_single(op, p));
            }
        }
        for a in &self.nobuild_partials {
            for b in &self.nobuild_partials {
                out.push(vec![Alt::Hyphen(a.clone(), b.clone())]);
            }
        }
        out
    }

    pub fn level2_and_count(&self) -> usize {
        self.reduced.len() * self.reduced.len()
    }
    pub fn level2_and(&self, i: usize, j: usize) -> Prog {
        vec![Alt::Set(vec![
            Simple::P(self.reduced[i].0, self.reduced[i].1.clone()),
            Simple::P(self.reduced[j].0, self.reduced[j].1.clone()),
        ])]
    }
    pub fn level2_or(&self, i: usize, j: usize) -> Prog {
        vec![self.alts[i].clone(), self.alts[j].clone()]
    }
}

pub struct AOut {
    pub counters: BTreeMap<String, u64>,
    pub samples: Vec<Value>,
    pub per_dev_kind: BTreeMap<String, u64>,
    pub per_op: BTreeMap<String, u64>,
}

fn snapshot(c: &ACounters) -> BTreeMap<String, u64> {
    let mut m = BTreeMap::new();
    m.insert("programs".into(), c.programs.load(AO::Relaxed));
    m.insert("nontrivial_programs".into(), c.nontrivial.load(AO::Relaxed));
    m.insert("programs_expected_unsatisfiable".into(), c.expected_unsat.load(AO::Relaxed));
    m.insert("programs_failing_to_parse".into(), c.parse_err.load(AO::Relaxed));
    m.insert("cells".into(), c.cells.load(AO::Relaxed));
    m.insert("dont_care_cells".into(), c.dontcare_cells.load(AO::Relaxed));
    m.insert("deviated_programs".into(), c.deviated.load(AO::Relaxed));
    m.insert("pairs".into(), c.pairs.load(AO::Relaxed));
    m
}

/// deviation family of one base program: all single deviations, and (if `pairs`) all
/// non-conflicting pairs.
fn deviation_family(e: &EngA, prog: &Prog, pairs: bool, sink: &Sink, c: &ACounters, kinds: &std::sync::Mutex<BTreeMap<String, u64>>) {
    let base = e.check_c01(prog, &[], sink, c, None);
    let mut ss = sites(prog);
    ss.extend(nosep_sites(prog));
    let mut local: BTreeMap<String, u64> = BTreeMap::new();
    for d in &ss {
        *local.entry(d.kind().to_string()).or_insert(0) += 1;
        e.check_c01(prog, std::slice::from_ref(d), sink, c, base.as_ref());
    }
    if !pairs {
        // always: a leading blank combined with a stray `-` before the first comparator (the loose
        // hyphen form without lower end, which npm reads as garbage + comparator)
        for lead in [Dev::Lead, Dev::TabLead] {
            let g = Dev::Garbage { alt: 0, pos: 0, tok: "-" };
            if ss.contains(&g) {
                e.check_c01(prog, &[lead, g], sink, c, base.as_ref());
            }
        }
    }
    if pairs {
        for i in 0..ss.len() {
            for j in (i + 1)..ss.len() {
                if ss[i].conflicts(&ss[j]) {
                    continue;
                }
                e.check_c01(prog, &[ss[i].clone(), ss[j].clone()], sink, c, base.as_ref());
            }
        }
    }
    let mut k = kinds.lock().unwrap();
    for (a, b) in local {
        *k.entry(a).or_insert(0) += b;
    }
}

pub fn run_c01(tier: &str, sink: &Sink) -> (EngA, AOut) {
    let e = EngA::new(tier);
    let c = ACounters::default();
    let kinds = std::sync::Mutex::new(BTreeMap::new());
    let mut samples = vec![];
    // level 1 with deviations
    let l1 = e.level1();
    l1.par_iter().for_each(|p| deviation_family(&e, p, e.al.thorough, sink, &c, &kinds));
    for i in [0, l1.len() / 7, l1.len() / 3, l1.len() - 1] {
        samples.push(json!({"program": render(&l1[i], &[]), "npm": desugar(&l1[i]).map(|s| s.iter().map(|x| x.iter().map(|c| c.text()).collect::<Vec<_>>().join(" ")).collect::<Vec<_>>())}));
    }
    // level 2: a b over the reduced set (0 deviations), deviations over the core
    let n = e.reduced.len();
    (0..n).into_par_iter().for_each(|i| {
        for j in 0..n {
            let p = e.level2_and(i, j);
            e.check_c01(&p, &[], sink, &c, None);
        }
    });
    let m = e.core.len();
    (0..m).into_par_iter().for_each(|i| {
        for j in 0..m {
            let p = vec![Alt::Set(vec![Simple::P(e.core[i].0, e.core[i].1.clone()), Simple::P(e.core[j].0, e.core[j].1.clone())])];
            deviation_family(&e, &p, false, sink, &c, &kinds);
        }
    });
    // level 2: a || b over the alternative set, with single deviations
    let na = e.alts.len();
    (0..na).into_par_iter().for_each(|i| {
        for j in 0..na {
            let p = e.level2_or(i, j);
            if e.al.thorough || (i + j) % 3 == 0 {
                deviation_family(&e, &p, false, sink, &c, &kinds);
            } else {
                e.check_c01(&p, &[], sink, &c, None);
            }
        }
    });
    samples.push(json!({"program": render(&e.level2_and(n / 2, n / 3), &[])}));
    samples.push(json!({"program": render(&e.level2_or(na / 2, na - 1), &[Dev::Or { idx: 1, s: "||" }])}));
    // level 3 over the core: a b c, a b || c and a || b || c (quick: every third core comparator)
    {
        let idx: Vec<usize> = if e.al.thorough { (0..m).collect() } else { (0..m).step_by(3).collect() };
        idx.par_iter().for_each(|&i| {
            for &j in &idx {
                for &k in &idx {
                    let s = |x: usize| Simple::P(e.core[x].0, e.core[x].1.clone());
                    e.check_c01(&vec![Alt::Set(vec![s(i), s(j), s(k)])], &[], sink, &c, None);
                    e.check_c01(&vec![Alt::Set(vec![s(i), s(j)]), Alt::Set(vec![s(k)])], &[], sink, &c, None);
                    e.check_c01(&vec![Alt::Set(vec![s(i)]), Alt::Set(vec![s(j)]), Alt::Set(vec![s(k)])], &[], sink, &c, None);
                }
            }
        });
    }
    // mixed family: texts with 3-4 alternatives / comparators mixing operator kinds, in every order
    {
        let pf = |c: &[Cmp], pre: &str| Partial { c: c.to_vec(), pre: pre.into(), build: String::new() };
        let n1 = Cmp::N(1);
        let n0 = Cmp::N(0);
        let alts: Vec<Alt> = vec![
            Alt::Set(vec![Simple::P(Op::Caret, pf(&[n1, n0, n0], "a"))]),
            Alt::Hyphen(pf(&[n0, n1], ""), pf(&[n1, n0, n0], "")),
            Alt::Set(vec![Simple::P(Op::Bare, pf(&[n1, Cmp::X], ""))]),
            Alt::Set(vec![Simple::P(Op::Tilde, pf(&[n0, n0, n1], "0.a"))]),
            Alt::Set(vec![Simple::P(Op::Le, pf(&[n0, n1], ""))]),
            Alt::Set(vec![Simple::P(Op::Bare, pf(&[n1, n0, n0], "a"))]),
            Alt::Set(vec![Simple::P(Op::Gt, pf(&[n1, n0, n0], "")), Simple::P(Op::Lt, pf(&[n1, n0, n1], "a"))]),
            Alt::Set(vec![Simple::P(Op::Ge, pf(&[n0, n0, n0], "a")), Simple::P(Op::Lt, pf(&[n0, n1, n0], ""))]),
            Alt::Set(vec![Simple::P(Op::Gt, pf(&[n1], "")), Simple::P(Op::Lt, pf(&[n1], ""))]), // unsatisfiable
            Alt::Set(vec![Simple::P(Op::Eq, pf(&[n0, n1, n0], "")), Simple::Garbage("foo")]),
            Alt::Hyphen(pf(&[n1, n0, n0], "a"), pf(&[n1, Cmp::X], "")),
            Alt::Set(vec![Simple::P(Op::TildeGt, pf(&[n1, n1], ""))]),
        ];
        let na = alts.len();
        (0..na).into_par_iter().for_each(|i| {
            for j in 0..na {
                for k in 0..na {
                    e.check_c01(&vec![alts[i].clone(), alts[j].clone(), alts[k].clone()], &[], sink, &c, None);
                    if e.al.thorough || (i + j + k) % 2 == 0 {
                        for l in 0..na {
                            e.check_c01(&vec![alts[i].clone(), alts[j].clone(), alts[k].clone(), alts[l].clone()], &[], sink, &c, None);
                        }
                    }
                }
            }
        });
        let comps: Vec<Simple> = vec![
            Simple::P(Op::Caret, pf(&[n0, n1, n0], "")),
            Simple::P(Op::Ge, pf(&[n0, n1, n0], "a")),
            Simple::P(Op::Lt, pf(&[n1, n0, n0], "a")),
            Simple::P(Op::Le, pf(&[n1], "")),
            Simple::P(Op::Bare, pf(&[Cmp::X], "")),
            Simple::P(Op::Tilde, pf(&[n0, n1], "")),
            Simple::P(Op::Gt, pf(&[n0, n0, n1], "")),
            Simple::P(Op::Bare, pf(&[n0, n1, Cmp::X], "")),
            Simple::P(Op::Ge, pf(&[n0, n1, n1], "0.a")),
            Simple::Garbage("1.2.3.4"),
        ];
        let nc = comps.len();
        (0..nc).into_par_iter().for_each(|i| {
            for j in 0..nc {
                for k in 0..nc {
                    for l in 0..nc {
                        let set = vec![comps[i].clone(), comps[j].clone(), comps[k].clone(), comps[l].clone()];
                        e.check_c01(&vec![Alt::Set(set.clone())], &[], sink, &c, None);
                        if (i + j) % 3 == 0 {
                            // two comparators || two comparators
                            e.check_c01(&vec![Alt::Set(set[..2].to_vec()), Alt::Set(set[2..].to_vec())], &[], sink, &c, None);
                        }
                    }
                }
            }
        });
    }
    // numeric family: multi-digit components and relations between two numbers (9 vs 10, ...)
    {
        let (num, singles, pairs) = numeric_engine(&e);
        singles.par_iter().for_each(|p| { num.check_c01(p, &[], sink, &c, None); });
        pairs.par_iter().for_each(|p| { num.check_c01(p, &[], sink, &c, None); });
    }
    // limit family: MAX-1 / MAX at each component of each form
    limit_family_c01(&e, sink, &c);
    let per_dev_kind = kinds.into_inner().unwrap();
    (e, AOut { counters: snapshot(&c), samples, per_dev_kind, per_op: BTreeMap::new() })
}

/// every operator form with MAX-1 / MAX at each numeric position (+ hyphen forms, wide programs);
/// evaluated on a dedicated universe
pub fn limit_engine(e: &EngA) -> (EngA, Vec<Prog>) {
    let big = [MAX_SAFE - 1, MAX_SAFE];
    let mut progs: Vec<Prog> = vec![];
    // multi-digit components (the main alphabet only has one-digit numbers): 9 -> 10 carries etc.
    let mid = [9u64, 10, 11, 99, 100, 255, 256, 65535, 65536, 4294967295, 4294967296, 281474976710655, 281474976710656];
    for op in ALL_OPS {
        for &b in mid.iter().chain(big.iter()) {
            for len in 1..=3usize {
                for pos in 0..len {
                    let mut comps = vec![Cmp::N(1); len];
                    comps[pos] = Cmp::N(b);
                    progs.push(prog_single(op, &Partial { c: comps, pre: String::new(), build: String::new() }));
                }
            }
        }
    }
    for &b in &big {
        let one = |v: Vec<Cmp>| Partial { c: v, pre: String::new(), build: String::new() };
        for (lo, hi) in [
            (one(vec![Cmp::N(1)]), one(vec![Cmp::N(b)])),
            (one(vec![Cmp::N(1)]), one(vec![Cmp::N(1), Cmp::N(b)])),
            (one(vec![Cmp::N(1)]), one(vec![Cmp::N(1), Cmp::N(1), Cmp::N(b)])),
            (one(vec![Cmp::N(b)]), one(vec![Cmp::X])),
            (one(vec![Cmp::N(1), Cmp::N(b)]), one(vec![Cmp::N(b), Cmp::N(b)])),
        ] {
            progs.push(vec![Alt::Hyphen(lo, hi)]);
        }
    }
    // wide programs: many alternatives / many comparators / long identifiers, so that the range
    // text (not any single version) exceeds 256, 512, ... bytes (npm has no range length limit)
    let full = |a: u64, b: u64, c: u64, pre: &str| Partial { c: vec![Cmp::N(a), Cmp::N(b), Cmp::N(c)], pre: pre.into(), build: String::new() };
    for k in [8u64, 15, 16, 17, 24, 40, 80] {
        progs.push((0..k).map(|i| Alt::Set(vec![Simple::P(Op::Bare, full(1, 0, i, ""))])).collect());
        progs.push((0..k).map(|i| Alt::Set(vec![Simple::P(Op::Bare, Partial { c: vec![Cmp::N(i)], pre: String::new(), build: String::new() })])).collect());
        progs.push(vec![Alt::Set((0..k).map(|i| Simple::P(Op::Ge, full(1, 0, i, ""))).collect())]);
        progs.push((0..k).map(|i| Alt::Set(vec![Simple::P(Op::Caret, full(i, 1, 0, "a")), Simple::P(Op::Lt, full(i, 5, 0, ""))])).collect());
    }
    for n in [60usize, 120, 200, 240] {
        let (ta, tb) = ("a".repeat(n), "b".repeat(n));
        progs.push(vec![Alt::Set(vec![Simple::P(Op::Ge, full(1, 0, 0, &ta)), Simple::P(Op::Lt, full(1, 0, 0, &tb))])]);
        progs.push(vec![Alt::Set(vec![Simple::P(Op::Bare, full(1, 0, 0, &ta))]), Alt::Set(vec![Simple::P(Op::Bare, full(1, 0, 0, &tb))]), Alt::Set(vec![Simple::P(Op::Tilde, full(2, 0, 0, &ta))])]);
    }
    // dedicated universe
    let mut bvs = vec![];
    for p in &progs {
        if let Some(s) = desugar(p) {
            bvs.extend(comparator_versions(&s));
        }
    }
    let mut vs = critical_points(&bvs);
    vs.extend(grid(1, &["", "a"]));
    for &b in mid.iter().chain(big.iter()) {
        for t in ["", "a"] {
            vs.push(ver(b, 0, 0, t));
            vs.push(ver(1, b, 0, t));
            vs.push(ver(1, 1, b, t));
            vs.push(ver(b, b, b, t));
        }
    }
    // C01 quantifies over versions with components in [0, MAX_SAFE_INTEGER]
    vs.retain(|v| v.major <= MAX_SAFE && v.minor <= MAX_SAFE && v.patch <= MAX_SAFE);
    let lim = EngA {
        utag: "limit",
        tier: e.tier.clone(),
        al: alpha(&e.tier),
        u: Universe::new(vs),
        all_partials: vec![],
        nobuild_partials: vec![],
        reduced: vec![],
        core: vec![],
        alts: vec![],
    };
    (lim, progs)
}

/// Numeric family: components from {x, 1, 9, 10} (a one-digit/two-digit boundary with a carry),
/// every operator x every partial, every hyphen pair, and (thorough) every ordered pair `a b` of
/// full-triple comparators; dedicated universe with all neighbours of 9/10.
pub fn numeric_engine(e: &EngA) -> (EngA, Vec<Prog>, Vec<Prog>) {
    let comps = [Cmp::X, Cmp::N(1), Cmp::N(9), Cmp::N(10)];
    let ps = partials(&comps, &[("", ""), ("a", "")]);
    let mut singles: Vec<Prog> = vec![];
    for op in ALL_OPS {
        for p in &ps {
            singles.push(prog_single(op, p));
        }
    }
    let plain: Vec<&Partial> = ps.iter().filter(|p| p.pre.is_empty()).collect();
    for a in &plain {
        for b in &plain {
            singles.push(vec![Alt::Hyphen((*a).clone(), (*b).clone())]);
        }
    }
    let mut pairs: Vec<Prog> = vec![];
    let _ = &mut pairs;
    let full: Vec<&Partial> = ps.iter().filter(|p| p.c.len() >= 2 && p.c.iter().all(|c| !matches!(c, Cmp::X)) && p.pre.is_empty()).collect();
    let ops = [Op::Lt, Op::Le, Op::Gt, Op::Ge, Op::Tilde, Op::Caret, Op::Bare];
    let stride = if e.al.thorough { 1 } else { 3 };
    for (ia, a) in full.iter().enumerate() {
        for (ib, b) in full.iter().enumerate() {
            if (ia + ib) % stride != 0 {
                continue;
            }
            for oa in ops {
                for ob in ops {
                    pairs.push(vec![Alt::Set(vec![Simple::P(oa, (*a).clone()), Simple::P(ob, (*b).clone())])]);
                }
            }
        }
    }
    // bit-boundary family for the prerelease gate and the bounds: base triple 1.2.3 against the same
    // triple with 2^k added to one component (a packed / truncated triple comparison collides at some k)
    let mut bitvs: Vec<Version> = vec![];
    let fullp = |a: u64, b: u64, c: u64, pre: &str| Partial { c: vec![Cmp::N(a), Cmp::N(b), Cmp::N(c)], pre: pre.into(), build: String::new() };
    singles.push(prog_single(Op::Ge, &fullp(1, 2, 3, "a")));
    singles.push(prog_single(Op::Gt, &fullp(1, 2, 3, "a")));
    singles.push(prog_single(Op::Caret, &fullp(1, 2, 3, "a")));
    for k in 1..=49u32 {
      for dd in [0u64, 1, 2] {
        let d = (1u64 << k) - 1 + dd; // the component becomes base + 2^k - 1, + 2^k, + 2^k + 1
        for pos in 0..3 {
            let mut t = [1u64, 2, 3];
            t[pos] += d;
            if t[pos] > MAX_SAFE {
                continue;
            }
            for tag in ["", "0", "b"] {
                bitvs.push(ver(t[0], t[1], t[2], tag));
            }
            singles.push(prog_single(Op::Le, &fullp(t[0], t[1], t[2], "b")));
            singles.push(prog_single(Op::Lt, &fullp(t[0], t[1], t[2], "b")));
            singles.push(vec![Alt::Set(vec![Simple::P(Op::Ge, fullp(1, 2, 3, "a")), Simple::P(Op::Le, fullp(t[0], t[1], t[2], "b"))])]);
        }
      }
    }
    // long-tag family: bounds whose tag has 3..6 identifiers (a parser, comparison or printer that
    // handles only the first identifiers; C13-6), every operator, hyphen and two-comparator forms
    let long_tags = ["a.b.1", "rc.1.5", "0.0.0", "1.2.3.4.5.6", "a.0.b.1"];
    let mut longvs: Vec<Version> = vec![];
    for (i, t) in long_tags.iter().enumerate() {
        for op in ALL_OPS {
            singles.push(prog_single(op, &fullp(1, 2, 3, t)));
        }
        let parts: Vec<&str> = t.split('.').collect();
        for k in 1..=parts.len() {
            for (a, b, c) in [(1, 2, 3), (1, 2, 4)] {
                longvs.push(ver(a, b, c, &parts[..k].join(".")));
                longvs.push(ver(a, b, c, &format!("{}.0", parts[..k].join("."))));
            }
        }
        for t2 in &long_tags[i + 1..] {
            singles.push(vec![Alt::Hyphen(fullp(1, 2, 3, t), fullp(1, 2, 4, t2))]);
            singles.push(vec![Alt::Set(vec![Simple::P(Op::Ge, fullp(1, 2, 3, t)), Simple::P(Op::Lt, fullp(1, 2, 3, t2))])]);
            singles.push(vec![Alt::Set(vec![Simple::P(Op::Gt, fullp(1, 2, 3, t2)), Simple::P(Op::Le, fullp(1, 2, 3, t))])]);
            singles.push(vec![Alt::Set(vec![Simple::P(Op::Lt, fullp(1, 2, 3, t))]), Alt::Set(vec![Simple::P(Op::Ge, fullp(1, 2, 4, t2))])]);
        }
    }
    let mut bvs = vec![];
    for p in &singles {
        if let Some(s) = desugar(p) {
            bvs.extend(comparator_versions(&s));
        }
    }
    let mut vs = critical_points(&bvs);
    vs.extend(bitvs);
    vs.extend(longvs);
    for tag in ["", "0", "a", "b", "c"] {
        vs.push(ver(1, 2, 3, tag));
    }
    vs.retain(|v| v.major <= MAX_SAFE && v.minor <= MAX_SAFE && v.patch <= MAX_SAFE);
    let ns = [0u64, 1, 2, 8, 9, 10, 11, 12];
    for a in ns {
        for b in ns {
            for c in ns {
                for t in ["", "a", "0"] {
                    vs.push(ver(a, b, c, t));
                }
            }
        }
    }
    let num = EngA {
        utag: "numeric",
        tier: e.tier.clone(),
        al: alpha(&e.tier),
        u: Universe::new(vs),
        all_partials: vec![],
        nobuild_partials: vec![],
        reduced: vec![],
        core: vec![],
        alts: vec![],
    };
    (num, singles, pairs)
}

fn limit_family_c01(e: &EngA, sink: &Sink, c: &ACounters) {
    let (lim, progs) = limit_engine(e);
    for p in &progs {
        lim.check_c01_limit(p, sink, c);
    }
}

impl EngA {
    fn check_c01_limit(&self, prog: &Prog, sink: &Sink, c: &ACounters) {
        let text = render(prog, &[]);
        c.programs.fetch_add(1, AO::Relaxed);
        let sets = desugar(prog).unwrap();
        let strict = self.ref_bits(&sets);
        let loose = self.ref_bits(&loosen(&sets));
        let case = json!({"engine":"A","kind":"limit","prog":prog_json(prog),"tier":self.tier});
        match guarded(|| Range::parse(&text)) {
            Ok(Ok(r)) => {
                if let Ok(sat) = real_sat_bits(&self.u, &r) {
                    for i in 0..self.u.len() {
                        if strict.get(i) == loose.get(i) && sat.get(i) != strict.get(i) {
                            sink.report("sat", format!("text={}|v={}", text, vtext(&self.u.vs[i])), case.clone(), format!("satisfies={}", sat.get(i)), format!("{}", strict.get(i)));
                            break;
                        }
                    }
                }
            }
            Ok(Err(err)) => {
                if !strict.is_empty() && !loose.is_empty() {
                    let i = strict.first().unwrap();
                    sink.report("parse-fail", format!("text={}|v={}", text, vtext(&self.u.vs[i])), case, format!("Err({})", err.kind()), "Ok".into());
                }
            }
            Err(msg) => sink.report("panic", format!("text={}", text), case, format!("panic: {}", msg), "returns".into()),
        }
    }
}

/// true iff the program contains `<M` (major-only after wildcard normalisation) and every
/// disagreeing cell is a prerelease of that M.0.0 which the implementation admits.
fn lt_major_site(prog: &Prog, u: &Universe, diff: &Bits, sat: &Bits) -> bool {
    let mut majors: Vec<u64> = vec![];
    for alt in prog {
        if let Alt::Set(ss) = alt {
            for s in ss {
                if let Simple::P(Op::Lt, p) = s {
                    if let (Some(m), None, _) = norm(p) {
                        majors.push(m);
                    }
                }
            }
        }
    }
    if majors.is_empty() {
        return false;
    }
    for i in 0..u.len() {
        if diff.get(i) {
            let v = &u.vs[i];
            let ok = sat.get(i) && is_pre(v) && v.minor == 0 && v.patch == 0 && majors.contains(&v.major);
            if !ok {
                return false;
            }
        }
    }
    true
}

/// true iff some bound version of `r` has a component above MAX_SAFE_INTEGER
pub fn printed_component_above_max(r: &Range) -> bool {
    intervals_of(r).iter().any(|iv| {
        [iv.lo_version(), iv.hi_version()].into_iter().flatten().any(|v| v.major > MAX_SAFE || v.minor > MAX_SAFE || v.patch > MAX_SAFE)
    })
}

/// texts of wide ranges (printed form far beyond 256 bytes) used by the C13 wide family
pub fn wide_texts() -> Vec<String> {
    let mut out = vec![];
    for k in [8u64, 15, 16, 17, 24, 40, 80] {
        out.push((0..k).map(|i| format!("1.0.{}", i)).collect::<Vec<_>>().join(" || "));
        out.push((0..k).map(|i| format!("{}", i)).collect::<Vec<_>>().join("||"));
        out.push((0..k).map(|i| format!("^{}.1.0-a <{}.5.0", i, i)).collect::<Vec<_>>().join(" || "));
        out.push((0..k).map(|i| format!(">{}.0.0 <={}.0.1-0.a", i, i)).collect::<Vec<_>>().join(" || "));
    }
    for n in [60usize, 120, 200, 240] {
        let (ta, tb) = ("a".repeat(n), "b".repeat(n));
        out.push(format!(">=1.0.0-{} <1.0.0-{}", ta, tb));
        out.push(format!("1.0.0-{} || 1.0.0-{} || ~2.0.0-{}", ta, tb, ta));
    }
    out
}

pub fn replay(prop: &str, case: &Value, sink: &Sink) {
    let tier = case["tier"].as_str().unwrap_or("quick");
    let e = EngA::new(tier);
    let c = ACounters::default();
    match (prop, case["kind"].as_str().unwrap_or("")) {
        ("C01", "prog") => {
            let prog = prog_from(&case["prog"]);
            let devs: Vec<Dev> = case["devs"].as_array().map(|a| a.iter().map(dev_from).collect()).unwrap_or_default();
            match case["universe"].as_str().unwrap_or("main") {
                "numeric" => {
                    let (num, _, _) = numeric_engine(&e);
                    num.check_c01(&prog, &devs, sink, &c, None);
                }
                _ => {
                    e.check_c01(&prog, &devs, sink, &c, None);
                }
            }
        }
        ("C01", "limit") => {
            limit_family_c01(&e, sink, &c);
        }
        _ => replay_other(prop, &e, case, sink),
    }
}

// ------------------------------------------------------------------ C02 ---

pub struct Side {
    pub text: String,
    pub r: Range,
    pub sat: Bits,
    pub within: Bits,
}

impl EngA {
    pub fn side(&self, text: &str) -> Option<Side> {
        let r = guarded(|| Range::parse(text)).ok()?.ok()?;
        let sat = real_sat_bits(&self.u, &r).ok()?;
        let within = within_bits(&self.u, &intervals_of(&r));
        Some(Side { text: text.to_string(), r, sat, within })
    }

    /// metamorphic C02 clauses for the ordered pair (a, b); `lists` = both are hyphen-free comparator lists
    pub fn check_c02(&self, a: &Side, b: &Side, lists: bool, sink: &Sink, c: &ACounters) {
        crate::report::beat();
        c.pairs.fetch_add(1, AO::Relaxed);
        let u = &self.u;
        let case = |kind: &str| json!({"engine":"A","kind":kind,"a":a.text,"b":b.text,"lists":lists,"tier":self.tier});
        // ---- a || b
        let or_text = format!("{} || {}", a.text, b.text);
        let want_or = a.sat.or(&b.sat);
        match guarded(|| Range::parse(&or_text)) {
            Ok(Ok(r)) => {
                if let Ok(s) = real_sat_bits(u, &r) {
                    if let Some(i) = s.first_diff(&want_or) {
                        sink.report("or", format!("a={}|b={}|v={}", a.text, b.text, vtext(&u.vs[i])), case("pair"), format!("satisfies(`{}`)={}", or_text, s.get(i)), format!("{}", want_or.get(i)));
                    }
                }
            }
            Ok(Err(e)) => sink.report("or", format!("a={}|b={}|v=-", a.text, b.text), case("pair"), format!("`{}` fails to parse: {}", or_text, e.kind()), "Ok".into()),
            Err(msg) => sink.report("or", format!("a={}|b={}|v=-", a.text, b.text), case("pair"), format!("panic: {}", msg), "returns".into()),
        }
        if !lists {
            return;
        }
        // ---- a b
        let and_text = format!("{} {}", a.text, b.text);
        let wb = a.within.and(&b.within);
        let want_rel = a.sat.and(&b.sat).and(&u.rel);
        let want_pre = wb.and(&a.sat.or(&b.sat)).and(&u.pre);
        let want = want_rel.or(&want_pre);
        if !want.is_empty() && !want.subset_of(&u.rel) || !want_rel.is_empty() {
            c.nontrivial.fetch_add(1, AO::Relaxed);
        }
        match guarded(|| Range::parse(&and_text)) {
            Ok(Ok(r)) => {
                if let Ok(s) = real_sat_bits(u, &r) {
                    if let Some(i) = s.first_diff(&want) {
                        let v = &u.vs[i];
                        let clause = if want.is_empty() { "empty" } else if is_pre(v) { "and-prerelease" } else { "and-release" };
                        sink.report(clause, format!("a={}|b={}|v={}", a.text, b.text, vtext(v)), case("pair"), format!("satisfies(`{}`)={} (parsed as {})", and_text, s.get(i), bound_key(&r.verif_bounds())), format!("{}", want.get(i)));
                    }
                }
            }
            Ok(Err(e)) => {
                c.parse_err.fetch_add(1, AO::Relaxed);
                if let Some(i) = want.first() {
                    sink.report("empty", format!("a={}|b={}|v={}", a.text, b.text, vtext(&u.vs[i])), case("pair"), format!("`{}` fails to parse: {}", and_text, e.kind()), format!("Ok, admitting {}", vtext(&u.vs[i])));
                }
            }
            Err(msg) => sink.report("and-release", format!("a={}|b={}|v=-", a.text, b.text), case("pair"), format!("panic: {}", msg), "returns".into()),
        }
    }
}

pub fn run_c02(tier: &str, sink: &Sink) -> (EngA, AOut) {
    let e = EngA::new(tier);
    let c = ACounters::default();
    // comparator lists: every reduced comparator (1 comparator) + two-comparator lists from the core
    let mut texts: Vec<String> = e.reduced.iter().map(|(op, p)| render(&prog_single(*op, p), &[])).collect();
    let m = e.core.len();
    let step = if e.al.thorough { 3 } else { 7 };
    let mut i = 0;
    while i < m {
        let mut j = 0;
        while j < m {
            let p = vec![Alt::Set(vec![Simple::P(e.core[i].0, e.core[i].1.clone()), Simple::P(e.core[j].0, e.core[j].1.clone())])];
            texts.push(render(&p, &[]));
            j += step;
        }
        i += step;
    }
    // sides spelled loosely / with unparseable tokens (they parse, so they are within C02's premise)
    for (op, p) in e.core.iter().step_by(5) {
        let prog = prog_single(*op, p);
        texts.push(format!("foo {}", render(&prog, &[])));
        texts.push(format!("{} 1.2.3.4", render(&prog, &[])));
        texts.push(format!("{} x|y", render(&prog, &[])));
        texts.push(format!("| {}", render(&prog, &[])));
        for d in sites(&prog) {
            if matches!(d, Dev::VPrefix { .. } | Dev::OpGap { .. } | Dev::LeadZero { .. } | Dev::NoTagHyphen { .. }) {
                texts.push(render(&prog, &[d]));
            }
        }
    }
    texts.sort();
    texts.dedup();
    let sides: Vec<Side> = texts.par_iter().filter_map(|t| e.side(t)).collect();
    let n = sides.len();
    (0..n).into_par_iter().for_each(|i| {
        for j in 0..n {
            e.check_c02(&sides[i], &sides[j], true, sink, &c);
        }
    });
    // alternatives incl. hyphen forms and multi-alternative texts: only the `||` clause
    let mut alt_texts: Vec<String> = e.alts.iter().map(|a| render(&vec![a.clone()], &[])).collect();
    let k = alt_texts.len();
    for i in (0..k).step_by(9) {
        for j in (0..k).step_by(13) {
            alt_texts.push(format!("{} || {}", alt_texts[i], alt_texts[j]));
        }
    }
    alt_texts.sort();
    alt_texts.dedup();
    let asides: Vec<Side> = alt_texts.par_iter().filter_map(|t| e.side(t)).collect();
    let na = asides.len();
    (0..na).into_par_iter().for_each(|i| {
        for j in 0..na {
            e.check_c02(&asides[i], &asides[j], false, sink, &c);
        }
    });
    let big = c02_bigdigit_family(sink);
    let mut counters = snapshot(&c);
    counters.insert("bigdigit_family_cells".into(), big);
    counters.insert("comparator_list_sides".into(), n as u64);
    counters.insert("comparator_list_texts_not_parsing".into(), (texts.len() - n) as u64);
    counters.insert("alternative_sides".into(), na as u64);
    let samples = vec![
        json!({"a": sides[n / 3].text, "b": sides[n / 2].text, "texts": [format!("{} {}", sides[n / 3].text, sides[n / 2].text), format!("{} || {}", sides[n / 3].text, sides[n / 2].text)]}),
        json!({"a": asides[na / 3].text, "b": asides[na - 1].text}),
    ];
    (e, AOut { counters, samples, per_dev_kind: BTreeMap::new(), per_op: BTreeMap::new() })
}

/// C02 on tags that are all-digit but do not fit u64 (the parser keeps them as text), of different
/// lengths, with and without leading zeros, next to one that fits and alphanumeric ones. No
/// reference order is used: both comparators are tagged on the triple of every probed prerelease,
/// so `a b` must be satisfied exactly by the versions that satisfy `a` and `b` (C02, both clauses),
/// whatever the order among such identifiers is. (C02-9: an order that is not transitive there.)
pub fn c02_bigdigit_family(sink: &Sink) -> u64 {
    let tags = ["99999999999999999999", "100000000000000000000", "099999999999999999999", "18446744073709551615", "18446744073709551616", "5x", "1", "a", "9a", "1a"];
    let mut comps: Vec<String> = vec![];
    for t in tags {
        for op in [">=", ">", "<", "<="] {
            comps.push(format!("{}1.0.0-{}", op, t));
        }
    }
    let mut vers: Vec<Version> = vec![];
    for t in tags {
        if let Ok(Ok(v)) = guarded(|| Version::parse(format!("1.0.0-{}", t))) {
            vers.push(v);
        }
    }
    for t in ["1.0.0", "0.9.0", "1.0.1"] {
        vers.push(Version::parse(t).unwrap());
    }
    let parsed: Vec<Option<Range>> = comps.iter().map(|t| guarded(|| Range::parse(t)).ok().and_then(|r| r.ok())).collect();
    let mut cells = 0u64;
    for (i, a) in comps.iter().enumerate() {
        for (j, b) in comps.iter().enumerate() {
            crate::report::beat();
            let (Some(ra), Some(rb)) = (&parsed[i], &parsed[j]) else { continue };
            let text = format!("{} {}", a, b);
            let case = json!({"engine":"A","kind":"bigdigit","a":a,"b":b});
            let both: Vec<bool> = vers.iter().map(|v| ra.satisfies(v) && rb.satisfies(v)).collect();
            cells += vers.len() as u64;
            match guarded(|| Range::parse(&text)) {
                Ok(Ok(r)) => {
                    for (k, v) in vers.iter().enumerate() {
                        let got = r.satisfies(v);
                        if got != both[k] {
                            sink.report(if is_pre(v) { "and-prerelease" } else { "and-release" }, format!("a={}|b={}|v={}", a, b, vtext(v)), case.clone(), format!("`{}` satisfied: {}", text, got), format!("{} (a: {}, b: {})", both[k], ra.satisfies(v), rb.satisfies(v)));
                            break;
                        }
                    }
                }
                Ok(Err(_)) => {
                    if let Some(k) = both.iter().position(|x| *x) {
                        sink.report("empty", format!("a={}|b={}|v={}", a, b, vtext(&vers[k])), case.clone(), format!("`{}` does not parse", text), format!("{} satisfies both sides", vtext(&vers[k])));
                    }
                }
                Err(m) => sink.report("empty", format!("a={}|b={}|v=-", a, b), case.clone(), format!("parse panics: {}", m), "returns".into()),
            }
        }
    }
    cells
}

fn replay_other(prop: &str, e: &EngA, case: &Value, sink: &Sink) {
    let c = ACounters::default();
    match (prop, case["kind"].as_str().unwrap_or("")) {
        ("C02", "bigdigit") => {
            let _ = c02_bigdigit_family(sink);
        }
        ("C02", "pair") => {
            let (Some(a), Some(b)) = (e.side(case["a"].as_str().unwrap()), e.side(case["b"].as_str().unwrap())) else {
                eprintln!("replay: a side does not parse");
                return;
            };
            e.check_c02(&a, &b, case["lists"].as_bool().unwrap_or(true), sink, &c);
        }
        ("C03", "numeric-prog") | ("C11", "numeric-prog") | ("C13", "numeric-prog") => {
            let prog = prog_from(&case["prog"]);
            let (num, _, _) = numeric_engine(e);
            num.check_misc_kind(prop, &prog, &[], sink, &c, "numeric-prog");
        }
        ("C03", "limit-prog") | ("C11", "limit-prog") | ("C13", "limit-prog") => {
            let prog = prog_from(&case["prog"]);
            let (lim, _) = limit_engine(e);
            lim.check_misc_kind(prop, &prog, &[], sink, &c, "limit-prog");
        }
        ("C03", _) | ("C11", _) | ("C13", _) => {
            let prog = prog_from(&case["prog"]);
            let devs: Vec<Dev> = case["devs"].as_array().map(|a| a.iter().map(dev_from).collect()).unwrap_or_default();
            e.check_misc(prop, &prog, &devs, sink, &c);
        }
        _ => eprintln!("replay: unknown case"),
    }
}

// ------------------------------------------- C03 / C11 / C13 over programs ---

impl EngA {
    /// per-program clauses of C03 (gate on written comparators, build invariance),
    /// C11 (min_version) and C13 (round trip).
    pub fn check_misc(&self, prop: &str, prog: &Prog, devs: &[Dev], sink: &Sink, c: &ACounters) {
        self.check_misc_kind(prop, prog, devs, sink, c, "prog")
    }

    pub fn check_misc_kind(&self, prop: &str, prog: &Prog, devs: &[Dev], sink: &Sink, c: &ACounters, kind: &str) {
        crate::report::beat();
        let u = &self.u;
        let text = render(prog, devs);
        c.programs.fetch_add(1, AO::Relaxed);
        let Ok(Ok(r)) = guarded(|| Range::parse(&text)) else {
            c.parse_err.fetch_add(1, AO::Relaxed);
            return; // C01's business
        };
        let Ok(sat) = real_sat_bits(u, &r) else { return };
        let case = || json!({"engine":"A","kind":kind,"prog":prog_json(prog),"devs":devs.iter().map(dev_json).collect::<Vec<_>>(),"tier":self.tier});
        match prop {
            "C03" => {
                let Some(sets) = desugar(prog) else { return };
                // Gate oracle, relative to the crate's own bounds (bounds errors are C01's business):
                // a prerelease v is admitted iff for some alternative i of the text, v lies within the
                // bounds the crate gives alternative i and alternative i has a *written* comparator
                // tagged on v's triple.
                let mut expected = u.zero();
                let mut tagged = false;
                for alt in prog.iter() {
                    let written: Vec<Version> = match alt {
                        Alt::Hyphen(x, y) => [x, y].iter().filter(|p| !p.pre.is_empty()).filter_map(|p| match norm(p) {
                            (Some(a), Some(b), Some(c)) => Some(ver(a, b, c, &p.pre)),
                            _ => None,
                        }).collect(),
                        Alt::Set(ss) => ss.iter().filter_map(|s| match s {
                            Simple::P(_, p) if !p.pre.is_empty() => match norm(p) {
                                (Some(a), Some(b), Some(c)) => Some(ver(a, b, c, &p.pre)),
                                _ => None,
                            },
                            _ => None,
                        }).collect(),
                    };
                    if !written.is_empty() {
                        tagged = true;
                    }
                    let alt_text = render(&vec![alt.clone()], &[]);
                    let Ok(Ok(ra)) = guarded(|| Range::parse(&alt_text)) else {
                        // the crate gives this alternative no bounds at all: if npm's reading admits
                        // something there, those versions (prereleases included, the gate being
                        // open by the written tag) are expected (C03-8: a tagged exact comparator
                        // next to an untagged one dropped as a whole)
                        if let Some(s) = desugar(&vec![alt.clone()]) {
                            expected.or_assign(&self.ref_bits(&s));
                        }
                        continue;
                    };
                    let w = within_bits(u, &intervals_of(&ra));
                    let mut gate = u.rel.clone();
                    for t in &written {
                        gate.or_assign(&u.triple_pre_bits(t));
                    }
                    expected.or_assign(&w.and(&gate));
                }
                let _ = &sets;
                if tagged {
                    c.nontrivial.fetch_add(1, AO::Relaxed);
                }
                if let Some(i) = sat.first_diff(&expected) {
                    let v = &u.vs[i];
                    let clause = if !is_pre(v) { "release" } else if sat.get(i) { "gate-closed" } else { "gate-open" };
                    sink.report(clause, format!("text={}|v={}", text, vtext(v)), case(), format!("satisfies={}", sat.get(i)), format!("{} (within the crate's bounds of an alternative: {}, written tag on the same triple there: {})", expected.get(i), expected.get(i) || !sat.get(i), expected.get(i)));
                }
                // resolver-style use: the highest / lowest universe version picked by max/min_satisfying
                // is the highest / lowest version the gate oracle admits
                if let (Ok(mx), Ok(mn)) = (guarded(|| r.max_satisfying(&u.vs).cloned()), guarded(|| r.min_satisfying(&u.vs).cloned())) {
                    let want_max = (0..u.len()).rev().find(|i| expected.get(*i));
                    let want_min = expected.first();
                    let okx = match (&mx, want_max) { (None, None) => true, (Some(v), Some(i)) => req(v, &u.vs[i]), _ => false };
                    let okn = match (&mn, want_min) { (None, None) => true, (Some(v), Some(i)) => req(v, &u.vs[i]), _ => false };
                    if !okx || !okn {
                        sink.report("resolver", format!("text={}|v={}", text, mx.as_ref().map(vtext).unwrap_or("-".into())), case(), format!("max_satisfying={:?} min_satisfying={:?}", mx.as_ref().map(vtext), mn.as_ref().map(vtext)), format!("max={:?} min={:?}", want_max.map(|i| vtext(&u.vs[i])), want_min.map(|i| vtext(&u.vs[i]))));
                    }
                }
                // build metadata on the version never changes the answer
                for (i, v) in u.vs.iter().enumerate() {
                    for b in ["b", "0.b"] {
                        let mut vb = v.clone();
                        vb.build = ids(b);
                        let got = guarded(|| r.satisfies(&vb)).unwrap_or(!sat.get(i));
                        let got2 = guarded(|| vb.satisfies(&r)).unwrap_or(!sat.get(i));
                        if got != sat.get(i) || got2 != sat.get(i) {
                            sink.report("build-version", format!("text={}|v={}+{}", text, vtext(v), b), case(), format!("{}", got), format!("{} (same as without build)", sat.get(i)));
                            return;
                        }
                    }
                }
                // build metadata on the range side never changes the answer
                let stripped: Prog = prog
                    .iter()
                    .map(|a| match a {
                        Alt::Hyphen(x, y) => Alt::Hyphen(Partial { build: String::new(), ..x.clone() }, Partial { build: String::new(), ..y.clone() }),
                        Alt::Set(s) => Alt::Set(
                            s.iter()
                                .map(|s| match s {
                                    Simple::P(op, p) => Simple::P(*op, Partial { build: String::new(), ..p.clone() }),
                                    g => g.clone(),
                                })
                                .collect(),
                        ),
                    })
                    .collect();
                if &stripped != prog {
                    let t2 = render(&stripped, devs);
                    if let Ok(Ok(r2)) = guarded(|| Range::parse(&t2)) {
                        if let Ok(s2) = real_sat_bits(u, &r2) {
                            if let Some(i) = s2.first_diff(&sat) {
                                sink.report("build-range", format!("text={}|v={}", text, vtext(&u.vs[i])), case(), format!("{}", sat.get(i)), format!("{} (as for `{}`)", s2.get(i), t2));
                            }
                        }
                    } else {
                        sink.report("build-range", format!("text={}|v=-", text), case(), "parses".into(), format!("`{}` does not parse", t2));
                    }
                }
            }
            "C11" => {
                let key = bound_key(&r.verif_bounds());
                if !sat.is_empty() && sat.first().map(|f| {
                    // non-trivial: least satisfying version is not the numerically least lower bound text
                    !intervals_of(&r).iter().any(|iv| iv.lo_version().map(|b| req(b, &u.vs[f])).unwrap_or(false))
                }).unwrap_or(false) {
                    c.nontrivial.fetch_add(1, AO::Relaxed);
                }
                match guarded(|| r.min_version()) {
                    Err(msg) => sink.report("panic", format!("text={}", text), case(), format!("panic: {}", msg), "returns".into()),
                    Ok(Some(mv)) => {
                        if !guarded(|| r.satisfies(&mv)).unwrap_or(false) {
                            sink.report("unsat-min", format!("text={}|v={}", text, vtext(&mv)), case(), format!("min_version={} does not satisfy ({})", vtext(&mv), key), "a satisfying version".into());
                        }
                        if let Some(f) = sat.first() {
                            if rlt(&u.vs[f], &mv) {
                                sink.report("lower-exists", format!("text={}|v={}", text, vtext(&u.vs[f])), case(), format!("min_version={}", vtext(&mv)), format!("{} satisfies and is lower", vtext(&u.vs[f])));
                            }
                        }
                    }
                    Ok(None) => {
                        if let Some(f) = sat.first() {
                            sink.report("none-but-sat", format!("text={}|v={}", text, vtext(&u.vs[f])), case(), "None".into(), format!("Some(<= {})", vtext(&u.vs[f])));
                        }
                    }
                }
            }
            "C13" => {
                let within = within_bits(u, &intervals_of(&r));
                if !sat.is_empty() {
                    c.nontrivial.fetch_add(1, AO::Relaxed);
                }
                // call-site tag: the printed form contains a numeric component above MAX_SAFE_INTEGER
                // (a desugaring arm computed component + 1 at the limit), which Range::parse rejects
                let site = if printed_component_above_max(&r) { "site=bound-above-max-safe-integer|" } else { "" };
                check_roundtrip(u, &r, &within, &sat, true, &mut |clause, w, obs, exp| {
                    sink.report(clause, format!("{}text={}|v={}", site, text, w), case(), obs, exp);
                });
            }
            _ => {}
        }
    }
}

/// C03/C11/C13: every level-1 program (with single deviations for C13), level-2 `a b` over the
/// reduced set and `a || b` over the alternative set.
pub fn run_misc(prop: &str, tier: &str, sink: &Sink) -> (EngA, AOut) {
    let e = EngA::new(tier);
    let c = ACounters::default();
    let l1 = e.level1();
    l1.par_iter().for_each(|p| {
        e.check_misc(prop, p, &[], sink, &c);
        if prop == "C13" || prop == "C03" {
            for d in sites(p) {
                // spelling must not matter for the round trip / gate; garbage and blanks are C01's
                if matches!(d, Dev::NoTagHyphen { .. } | Dev::LeadZero { .. } | Dev::VPrefix { .. } | Dev::Wild { .. }) {
                    e.check_misc(prop, p, &[d], sink, &c);
                }
            }
        }
    });
    let n = e.reduced.len();
    (0..n).into_par_iter().for_each(|i| {
        for j in 0..n {
            e.check_misc(prop, &e.level2_and(i, j), &[], sink, &c);
        }
    });
    let na = e.alts.len();
    (0..na).into_par_iter().for_each(|i| {
        for j in 0..na {
            e.check_misc(prop, &e.level2_or(i, j), &[], sink, &c);
        }
    });
    // numeric family (multi-digit components) on its own universe
    {
        let (num, singles, pairs) = numeric_engine(&e);
        singles.par_iter().for_each(|p| num.check_misc_kind(prop, p, &[], sink, &c, "numeric-prog"));
        pairs.par_iter().for_each(|p| num.check_misc_kind(prop, p, &[], sink, &c, "numeric-prog"));
    }
    // limit family (MAX_SAFE_INTEGER at every position of every form, wide programs) on its own universe
    let (lim, lprogs) = limit_engine(&e);
    lprogs.par_iter().for_each(|p| lim.check_misc_kind(prop, p, &[], sink, &c, "limit-prog"));
    let samples = vec![
        json!({"program": render(&l1[l1.len() / 5], &[])}),
        json!({"program": render(&e.level2_and(n / 2, n / 5), &[])}),
        json!({"program": render(&e.level2_or(na / 3, na / 2), &[])}),
    ];
    (e, AOut { counters: snapshot(&c), samples, per_dev_kind: BTreeMap::new(), per_op: BTreeMap::new() })
}

// ------------------------------------------- oracle cross-check (fixtures) ---

/// deterministic program list whose node-semver 7.6.2 answers are frozen under
/// /verif/fixtures/npm-7.6.2/ (thorough alphabet, independent of the tier)
pub fn fixture_programs(e: &EngA) -> Vec<(Prog, Vec<Dev>)> {
    let mut out: Vec<(Prog, Vec<Dev>)> = vec![];
    // level 1: every single comparator; hyphen pairs over the partials whose qualifier sits on a
    // numeric triple, plus wildcard-qualified partials against the core partials (keeps the
    // fixture file small)
    let wildq = |p: &Partial| (!p.pre.is_empty() || !p.build.is_empty()) && p.c.iter().any(|c| matches!(c, Cmp::X));
    for op in ALL_OPS {
        for p in &e.all_partials {
            out.push((prog_single(op, p), vec![]));
        }
    }
    let plain: Vec<&Partial> = e.nobuild_partials.iter().filter(|p| !wildq(p)).collect();
    for a in &plain {
        for b in &plain {
            out.push((vec![Alt::Hyphen((*a).clone(), (*b).clone())], vec![]));
        }
    }
    let corep: Vec<Partial> = {
        let mut v: Vec<Partial> = e.core.iter().map(|(_, p)| p.clone()).collect();
        v.dedup();
        v
    };
    for a in e.nobuild_partials.iter().filter(|p| wildq(p)) {
        for b in &corep {
            out.push((vec![Alt::Hyphen(a.clone(), b.clone())], vec![]));
            out.push((vec![Alt::Hyphen(b.clone(), a.clone())], vec![]));
        }
    }
    // single deviations of every single comparator over {x,0,1} (no build)
    let small = partials(&[Cmp::X, Cmp::N(0), Cmp::N(1)], &[("", ""), ("a", "")]);
    for op in ALL_OPS {
        for p in &small {
            let prog = prog_single(op, p);
            for d in sites(&prog) {
                out.push((prog.clone(), vec![d]));
            }
        }
    }
    let m = e.core.len();
    for i in 0..m {
        for j in 0..m {
            let s = |x: usize| Simple::P(e.core[x].0, e.core[x].1.clone());
            out.push((vec![Alt::Set(vec![s(i), s(j)])], vec![]));
            out.push((vec![Alt::Set(vec![s(i)]), Alt::Set(vec![s(j)])], vec![]));
        }
    }
    // a missing blank between two comparators (value-changing deviation): pairs, and the pair next to a third comparator
    for i in 0..m {
        for j in 0..m {
            let s = |x: usize| Simple::P(e.core[x].0, e.core[x].1.clone());
            let p2 = vec![Alt::Set(vec![s(i), s(j)])];
            for d in nosep_sites(&p2) {
                out.push((p2.clone(), vec![d]));
            }
            let k = (i * 7 + j * 3) % m;
            let p3 = vec![Alt::Set(vec![s(k), s(i), s(j)])];
            for d in nosep_sites(&p3) {
                out.push((p3.clone(), vec![d]));
            }
        }
    }
    out
}

pub fn fixture_input() -> Value {
    let e = EngA::new("thorough");
    let progs = fixture_programs(&e);
    json!({
        "versions": e.u.vs.iter().map(vtext).collect::<Vec<_>>(),
        "programs": progs.iter().map(|(p, d)| render(p, d)).collect::<Vec<_>>(),
    })
}

/// Replays the reference model against the frozen node-semver answers.
/// Returns (cases, cells, disagreements, note). A disagreement is a machinery error.
pub fn oracle_crosscheck() -> Result<(u64, u64, u64, String), String> {
    let path = format!("{}/fixtures/npm-7.6.2/answers.json", home_dir());
    let txt = std::fs::read_to_string(&path).map_err(|e| format!("{}: {}", path, e))?;
    let fx: Value = serde_json::from_str(&txt).map_err(|e| format!("{}: {}", path, e))?;
    let e = EngA::new("thorough");
    let progs = fixture_programs(&e);
    let vers: Vec<String> = e.u.vs.iter().map(vtext).collect();
    let fv: Vec<String> = fx["versions"].as_array().ok_or("no versions")?.iter().map(|x| x.as_str().unwrap_or("").to_string()).collect();
    if fv != vers {
        return Err("fixture universe differs from the current universe: regenerate fixtures (fixtures/npm-7.6.2/README)".into());
    }
    let answers = fx["answers"].as_array().ok_or("no answers")?;
    let texts = fx["programs"].as_array().ok_or("no programs")?;
    if answers.len() != progs.len() {
        return Err(format!("fixture has {} programs, harness enumerates {}", answers.len(), progs.len()));
    }
    let n = e.u.len();
    let results: Vec<(u64, Option<String>)> = (0..progs.len())
        .into_par_iter()
        .map(|k| {
            let (prog, devs) = &progs[k];
            let text = render(prog, devs);
            if texts[k].as_str() != Some(text.as_str()) {
                return (0, Some(format!("program {} text mismatch: {:?} vs {:?}", k, texts[k], text)));
            }
            // node quirk (3): caret compares the raw text of major/minor with the string "0", so a
            // zero spelled `00` is not recognised as zero (`^00.0` -> <1.0.0-0). The documented
            // desugaring has no such case; excluded from the cross-check only.
            let caret_00 = devs.iter().any(|d| match d {
                Dev::LeadZero { alt, simple, comp, .. } => match &prog[*alt] {
                    Alt::Set(ss) => matches!(&ss[*simple], Simple::P(Op::Caret, p) if p.c.get(*comp) == Some(&Cmp::N(0))),
                    _ => false,
                },
                _ => false,
            });
            if caret_00 {
                return (0, None);
            }
            let sets = desugar(&effective(prog, devs));
            let node = &answers[k];
            match (&sets, node.as_str()) {
                (None, None) => (0, None),
                (None, Some(_)) => (0, Some(format!("`{}`: reference says invalid, node parses it", text))),
                (Some(s), None) => {
                    // node rejects; acceptable only if... never for programs of the grammar
                    let _ = s;
                    (0, Some(format!("`{}`: node says invalid, reference parses it", text)))
                }
                (Some(s), Some(hex)) => {
                    let loose = loosen(s);
                    // node collapses a range containing an ANY alternative to `*`
                    let any_alt = loose.iter().any(|a| a.is_empty());
                    let mut bad = None;
                    let bytes = hex.as_bytes();
                    for i in 0..n {
                        let nib = bytes[i / 4];
                        let val = if nib <= b'9' { nib - b'0' } else { nib - b'a' + 10 };
                        let got = (val >> (3 - (i % 4))) & 1 == 1;
                        let v = &e.u.vs[i];
                        let want = if any_alt { !is_pre(v) } else { range_sat(&loose, v) };
                        if got != want {
                            bad = Some(format!("`{}` on {}: node={} reference(loose)={}", text, vtext(v), got, want));
                            break;
                        }
                    }
                    (n as u64, bad)
                }
            }
        })
        .collect();
    let mut cells = 0;
    let mut dis = 0;
    let mut first = String::new();
    for (c, b) in results {
        cells += c;
        if let Some(b) = b {
            dis += 1;
            if std::env::var("VERIF_DEBUG").is_ok() {
                eprintln!("{}", b);
            }
            if first.is_empty() {
                first = b;
            }
        }
    }
    Ok((progs.len() as u64, cells, dis, first))
}
