//! Engine D — exhaustive tuples over explicitly listed finite universes
//! (C04 order laws, C14 max/min_satisfying, C16 diff, C18 tuple conversions).

use crate::refmodel::*;
use crate::report::*;
use nodejs_semver::{Range, Version, VersionDiff};
use rayon::prelude::*;
use serde_json::{json, Value};
use std::cmp::Ordering;
use std::collections::BTreeMap;
use std::hash::{Hash, Hasher};
use std::sync::atomic::{AtomicU64, Ordering as AO};

pub struct DOut {
    pub counters: BTreeMap<String, u64>,
    pub samples: Vec<Value>,
    pub rule: String,
    pub extra: BTreeMap<String, Value>,
}

// ------------------------------------------------------------------- C04 ---

// incl. neighbours above 2^53 (not representable as doubles) and the two largest u64 values
// ... and identifiers that begin with a hyphen (`1.0.0--1` is the alphanumeric identifier `-1`)
const IDS: [&str; 19] = ["0", "1", "2", "10", "a", "b", "A", "a-", "-", "1a", "a1", "18446744073709551615", "18446744073709551614", "9007199254740992", "9007199254740993", "9", "-1", "-a", "--"];

pub fn c04_universe(tier: &str) -> Vec<Version> {
    let mut tags: Vec<String> = vec![String::new()];
    for a in IDS {
        tags.push(a.to_string());
    }
    let second: &[&str] = if tier == "thorough" { &IDS } else { &["0", "10", "a", "A", "-"] };
    for a in IDS {
        for b in second {
            tags.push(format!("{}.{}", a, b));
        }
    }
    for a in ["0", "a", "10"] {
        for b in ["0", "a", "10"] {
            for c in ["0", "a", "10"] {
                tags.push(format!("{}.{}.{}", a, b, c));
            }
        }
    }
    // longer lists: prefix relations and a difference only at the fourth / fifth identifier
    for t in ["a.b.c.d", "a.b.c.d.e", "a.b.c.10", "a.b.c.2", "a.b.c.2.0", "a.b.c.B", "0.0.0.0", "0.0.0.0.a", "1.2.3.4.5.6", "1.2.3.4.5.a", "a.b.c"] {
        tags.push(t.to_string());
    }
    let mut out = vec![];
    for t in &tags {
        out.push(ver(1, 0, 0, t));
    }
    for (ma, mi, pa) in [(0, 0, 0), (0, 0, 1), (0, 1, 0), (1, 0, 1), (1, 1, 0), (2, 0, 0), (0, 0, MAX_SAFE), (0, MAX_SAFE, 0), (MAX_SAFE, 0, 0), (MAX_SAFE, MAX_SAFE, MAX_SAFE), (1, 2, 3), (10, 2, 3), (2, 10, 3)] {
        for t in ["", "0", "a", "a.0"] {
            out.push(ver(ma, mi, pa, t));
        }
    }
    // build metadata variants (must never matter)
    let n = out.len();
    for i in (0..n).step_by(5) {
        let mut v = out[i].clone();
        v.build = ids("b");
        out.push(v);
    }
    let mut v = ver(1, 0, 0, "a");
    v.build = ids("0.zz");
    out.push(v);
    out
}

fn h1<T: Hash>(t: &T) -> u64 {
    let mut h = std::collections::hash_map::DefaultHasher::new();
    t.hash(&mut h);
    h.finish()
}

/// second, independent fixed-key hasher (FNV-1a over the byte stream)
struct Fnv(u64);
impl Hasher for Fnv {
    fn finish(&self) -> u64 {
        self.0
    }
    fn write(&mut self, bytes: &[u8]) {
        for b in bytes {
            self.0 ^= *b as u64;
            self.0 = self.0.wrapping_mul(0x100000001b3);
        }
    }
}
fn h2<T: Hash>(t: &T) -> u64 {
    let mut h = Fnv(0xcbf29ce484222325);
    t.hash(&mut h);
    h.finish()
}

fn ord_char(o: Ordering) -> char {
    match o {
        Ordering::Less => '<',
        Ordering::Equal => '=',
        Ordering::Greater => '>',
    }
}

pub fn check_c04_pair(a: &Version, b: &Version, sink: &Sink) {
        crate::report::beat();
    let key = format!("a={}|b={}", vtext_full(a), vtext_full(b));
    let case = || json!({"engine":"D","kind":"c04-pair","a":vjson(a),"b":vjson(b)});
    let want = rcmp(a, b);
    let got = match guarded(|| a.cmp(b)) {
        Ok(x) => x,
        Err(m) => {
            sink.report("cmp", key, case(), format!("panic: {}", m), format!("{:?}", want));
            return;
        }
    };
    if got != want {
        sink.report("cmp", key.clone(), case(), format!("{:?}", got), format!("{:?}", want));
    }
    if a.partial_cmp(b) != Some(got) {
        sink.report("partial", key.clone(), case(), format!("{:?}", a.partial_cmp(b)), format!("Some({:?})", got));
    }
    let ops = (a < b, a <= b, a > b, a >= b);
    let wops = (got == Ordering::Less, got != Ordering::Greater, got == Ordering::Greater, got != Ordering::Less);
    if ops != wops {
        sink.report("partial", format!("{}|ops", key), case(), format!("{:?}", ops), format!("{:?}", wops));
    }
    if b.cmp(a) != got.reverse() {
        sink.report("antisym", key.clone(), case(), format!("cmp(a,b)={:?} cmp(b,a)={:?}", got, b.cmp(a)), "reverse of each other".into());
    }
    let eq = a == b;
    if eq != (got == Ordering::Equal) || (a != b) == eq {
        sink.report("eq", key.clone(), case(), format!("a==b is {} but cmp is {:?}", eq, got), "== iff Equal".into());
    }
    if want == Ordering::Equal && (h1(a) != h1(b) || h2(a) != h2(b)) {
        sink.report("hash", key.clone(), case(), "precedence-equal versions hash differently".into(), "equal hashes".into());
    }
    // max / min of the pair
    let mx = std::cmp::max(a, b);
    let mn = std::cmp::min(a, b);
    if rcmp(mx, a) == Ordering::Less || rcmp(mx, b) == Ordering::Less || rcmp(mn, a) == Ordering::Greater || rcmp(mn, b) == Ordering::Greater {
        sink.report("minmax", key, case(), format!("max={} min={}", vtext(mx), vtext(mn)), "extremes in reference order".into());
    }
}

pub fn vjson(v: &Version) -> Value {
    json!({"major": v.major, "minor": v.minor, "patch": v.patch, "pre": v.pre_release.iter().map(id_text).collect::<Vec<_>>().join("."), "build": v.build.iter().map(id_text).collect::<Vec<_>>().join(".")})
}
pub fn vfrom(j: &Value) -> Version {
    verb(j["major"].as_u64().unwrap(), j["minor"].as_u64().unwrap(), j["patch"].as_u64().unwrap(), j["pre"].as_str().unwrap(), j["build"].as_str().unwrap())
}

fn check_list(list: &[&Version], sink: &Sink) {
        crate::report::beat();
    let owned: Vec<Version> = list.iter().map(|v| (*v).clone()).collect();
    let key = format!("list=[{}]", owned.iter().map(vtext_full).collect::<Vec<_>>().join(","));
    let case = || json!({"engine":"D","kind":"c04-list","list":owned.iter().map(vjson).collect::<Vec<_>>()});
    let mut sorted = owned.clone();
    if guarded(|| sorted.sort()).is_err() {
        sink.report("sort", key, case(), "sort panics".into(), "sorted".into());
        return;
    }
    for w in sorted.windows(2) {
        if rcmp(&w[0], &w[1]) == Ordering::Greater {
            sink.report("sort", key.clone(), case(), format!("[{}]", sorted.iter().map(vtext_full).collect::<Vec<_>>().join(",")), "non-decreasing in SemVer order".into());
            break;
        }
    }
    // permutation: same multiset of (text with build)
    let mut x: Vec<String> = owned.iter().map(vtext_full).collect();
    let mut y: Vec<String> = sorted.iter().map(vtext_full).collect();
    x.sort();
    y.sort();
    if x != y {
        sink.report("sort", format!("{}|perm", key), case(), "sorted list is not a permutation".into(), "permutation".into());
    }
    // the resolver entry points must agree with the same order (observation point of C04)
    if let Ok(r) = Range::parse(">=1.0.0-0 || <1.0.0-0") {
        let sat: Vec<&Version> = owned.iter().filter(|v| r.satisfies(v)).collect();
        for (which, got) in [("max", r.max_satisfying(&owned)), ("min", r.min_satisfying(&owned))] {
            let ok = match got {
                None => sat.is_empty(),
                Some(g) => !sat.is_empty() && sat.iter().all(|v| if which == "max" { rcmp(v, g) != Ordering::Greater } else { rcmp(v, g) != Ordering::Less }),
            };
            if !ok {
                sink.report("minmax", format!("{}|{}_satisfying", key, which), case(), format!("{:?}", got.map(vtext_full)), "the extreme satisfying element in SemVer order".into());
            }
        }
    }
    if let (Some(mx), Some(mn)) = (owned.iter().max(), owned.iter().min()) {
        for v in &owned {
            if rcmp(v, mx) == Ordering::Greater || rcmp(v, mn) == Ordering::Less {
                sink.report("minmax", key.clone(), case(), format!("max={} min={}", vtext_full(mx), vtext_full(mn)), format!("{} is beyond", vtext_full(v)));
                break;
            }
        }
    }
}

pub fn run_c04(tier: &str, sink: &Sink) -> DOut {
    let u = c04_universe(tier);
    let n = u.len();
    let pairs = AtomicU64::new(0);
    let triples = AtomicU64::new(0);
    let distinct3 = AtomicU64::new(0);
    // frozen node-semver compare() table for exactly this universe
    let mut extra = BTreeMap::new();
    match c04_fixture_check(tier, &u) {
        Ok(v) => {
            extra.insert("oracle_crosscheck".into(), v);
        }
        Err(e) => {
            eprintln!("MACHINERY: C04 oracle cross-check failed: {}", e);
            std::process::exit(2);
        }
    }
    (0..n).into_par_iter().for_each(|i| {
        for j in 0..n {
            pairs.fetch_add(1, AO::Relaxed);
            check_c04_pair(&u[i], &u[j], sink);
        }
        if rcmp(&u[i], &u[i]) != Ordering::Equal || u[i].cmp(&u[i]) != Ordering::Equal {
            sink.report("refl", format!("a={}", vtext_full(&u[i])), json!({"engine":"D","kind":"c04-pair","a":vjson(&u[i]),"b":vjson(&u[i])}), "cmp(a,a) != Equal".into(), "Equal".into());
        }
    });
    // the same order must hold between the *parsed* forms of the universe texts (a parser that
    // mis-denotes an identifier breaks precedence as observed by users)
    let parsed: Vec<Option<Version>> = u.iter().map(|v| guarded(|| Version::parse(vtext_full(v))).ok().and_then(|r| r.ok())).collect();
    let parsed_pairs = AtomicU64::new(0);
    (0..n).into_par_iter().for_each(|i| {
        let Some(a) = &parsed[i] else { return };
        for j in 0..n {
            let Some(b) = &parsed[j] else { continue };
            parsed_pairs.fetch_add(1, AO::Relaxed);
            let want = rcmp(&u[i], &u[j]);
            let got = a.cmp(b);
            if got != want || (a == b) != (want == Ordering::Equal) || (want == Ordering::Equal && h1(a) != h1(b)) {
                sink.report("cmp-parsed", format!("a={}|b={}", vtext_full(&u[i]), vtext_full(&u[j])), json!({"engine":"D","kind":"c04-parsed","a":vtext_full(&u[i]),"b":vtext_full(&u[j])}), format!("cmp of the parsed texts = {:?}, == is {}", got, a == b), format!("{:?}", want));
            }
        }
    });
    // bit-boundary family: components 2^k - 1, 2^k, 2^k + 1 against their carry partners
    // (1.0.2^k vs 1.1.0, 1.2^k.p vs 2.0.p, ...): all ordered pairs, built and parsed
    let mut bits: Vec<Version> = vec![ver(1, 0, 0, ""), ver(1, 1, 0, ""), ver(2, 0, 0, ""), ver(1, 0, 7, ""), ver(2, 0, 7, ""), ver(0, 0, 0, ""), ver(1, 1, 0, "a"), ver(2, 0, 0, "a"), ver(0, 0, 0, "a")];
    let ks: Vec<u32> = if tier == "thorough" { (2..=49).collect() } else { vec![2, 7, 8, 15, 16, 20, 21, 24, 28, 31, 32, 33, 40, 48, 49] };
    for k in ks {
        for d in [0u64, 1, 2] {
            let p = (1u64 << k) - 1 + d;
            if p > MAX_SAFE {
                continue;
            }
            bits.push(ver(1, 0, p, ""));
            bits.push(ver(1, p, 7, ""));
            bits.push(ver(p, 0, 0, ""));
            bits.push(ver(p, 0, 0, "a"));
            bits.push(ver(1, p, p, ""));
        }
    }
    let nb = bits.len();
    let bits_pairs = AtomicU64::new(0);
    (0..nb).into_par_iter().for_each(|i| {
        for j in 0..nb {
            bits_pairs.fetch_add(1, AO::Relaxed);
            check_c04_pair(&bits[i], &bits[j], sink);
        }
    });
    // transitivity + totality on all triples (implementation's own relation)
    let le: Vec<Vec<bool>> = (0..n).map(|i| (0..n).map(|j| u[i].cmp(&u[j]) != Ordering::Greater).collect()).collect();
    let cls: Vec<Vec<Ordering>> = (0..n).map(|i| (0..n).map(|j| rcmp(&u[i], &u[j])).collect()).collect();
    (0..n).into_par_iter().for_each(|i| {
        let mut t = 0u64;
        let mut d = 0u64;
        for j in 0..n {
            for k in 0..n {
                t += 1;
                if cls[i][j] != Ordering::Equal && cls[j][k] != Ordering::Equal && cls[i][k] != Ordering::Equal {
                    d += 1;
                }
                if le[i][j] && le[j][k] && !le[i][k] {
                    sink.report("trans", format!("a={}|b={}|c={}", vtext_full(&u[i]), vtext_full(&u[j]), vtext_full(&u[k])), json!({"engine":"D","kind":"c04-triple","a":vjson(&u[i]),"b":vjson(&u[j]),"c":vjson(&u[k])}), "a<=b and b<=c but not a<=c".into(), "transitive".into());
                }
            }
        }
        triples.fetch_add(t, AO::Relaxed);
        distinct3.fetch_add(d, AO::Relaxed);
    });
    // lists of length <= 4 over a 12-version sub-universe
    let sub_idx: Vec<usize> = {
        let want = ["1.0.0", "1.0.0-0", "1.0.0-10", "1.0.0-2", "1.0.0-a", "1.0.0-A", "1.0.0-a.0", "1.0.0-a-", "0.0.1", "2.0.0-a", "1.0.0+b", "1.0.0-a+0.zz"];
        want.iter().filter_map(|t| u.iter().position(|v| vtext_full(v) == *t)).collect()
    };
    let sub: Vec<&Version> = sub_idx.iter().map(|i| &u[*i]).collect();
    let m = sub.len();
    let maxlen = if tier == "thorough" { 4 } else { 3 };
    let lists = AtomicU64::new(0);
    (0..m).into_par_iter().for_each(|a| {
        let mut cnt = 0u64;
        check_list(&[sub[a]], sink);
        cnt += 1;
        for b in 0..m {
            check_list(&[sub[a], sub[b]], sink);
            cnt += 1;
            for c in 0..m {
                check_list(&[sub[a], sub[b], sub[c]], sink);
                cnt += 1;
                if maxlen >= 4 {
                    for d in 0..m {
                        check_list(&[sub[a], sub[b], sub[c], sub[d]], sink);
                        cnt += 1;
                    }
                }
            }
        }
        lists.fetch_add(cnt, AO::Relaxed);
    });
    let mut counters = BTreeMap::new();
    counters.insert("versions".into(), n as u64);
    counters.insert("ordered_pairs".into(), pairs.load(AO::Relaxed) + parsed_pairs.load(AO::Relaxed) + bits_pairs.load(AO::Relaxed));
    counters.insert("ordered_pairs_of_parsed_texts".into(), parsed_pairs.load(AO::Relaxed));
    counters.insert("bit_boundary_pairs".into(), bits_pairs.load(AO::Relaxed));
    counters.insert("triples".into(), triples.load(AO::Relaxed));
    counters.insert("triples_with_three_distinct_classes".into(), distinct3.load(AO::Relaxed));
    counters.insert("lists".into(), lists.load(AO::Relaxed));
    counters.insert("sub_universe".into(), m as u64);
    DOut {
        counters,
        samples: vec![json!({"pair": [vtext_full(&u[n / 3]), vtext_full(&u[n / 2])]}), json!({"triple": [vtext_full(&u[5]), vtext_full(&u[50]), vtext_full(&u[n - 1])]})],
        rule: "Engine D / C04: all ordered pairs and all triples of the listed version universe (every identifier-shape pair over the identifier alphabet, limit triples, build variants), all lists up to the stated length over a 12-version sub-universe; oracle = SemVer section 11 comparator written from the text (cross-checked against the frozen node-semver compare() table); non-trivial = triples with three pairwise distinct precedence classes".into(),
        extra,
    }
}

pub fn universe_texts(u: &[Version]) -> Vec<String> {
    u.iter().map(vtext_full).collect()
}

fn c04_fixture_check(tier: &str, u: &[Version]) -> Result<Value, String> {
    let path = format!("{}/fixtures/npm-7.6.2/compare_{}.json", home_dir(), if tier == "thorough" { "thorough" } else { "quick" });
    let txt = std::fs::read_to_string(&path).map_err(|e| format!("{}: {}", path, e))?;
    let fx: Value = serde_json::from_str(&txt).map_err(|e| format!("{}: {}", path, e))?;
    let fv: Vec<String> = fx["versions"].as_array().ok_or("versions")?.iter().map(|x| x.as_str().unwrap_or("").to_string()).collect();
    if fv != universe_texts(u) {
        return Err("compare fixture universe differs from the current universe: regenerate".into());
    }
    let rows = fx["rows"].as_array().ok_or("rows")?;
    let mut dis = 0u64;
    let mut f64_cells = 0u64;
    let mut first = String::new();
    for (i, row) in rows.iter().enumerate() {
        let row = row.as_str().unwrap_or("").as_bytes();
        for j in 0..u.len() {
            let want = ord_char(rcmp(&u[i], &u[j])) as u8;
            // node shortcut (4): node-semver compares numeric identifiers as IEEE doubles, so two
            // different numerics above 2^53 within one ulp compare equal there; SemVer says "by value"
            if row[j] != want && ord_char(rcmp_f64(&u[i], &u[j])) as u8 == row[j] {
                f64_cells += 1;
                continue;
            }
            if row[j] != want {
                dis += 1;
                if first.is_empty() {
                    first = format!("{} vs {}: node {} reference {}", vtext_full(&u[i]), vtext_full(&u[j]), row[j] as char, want as char);
                }
            }
        }
    }
    if dis > 0 {
        return Err(format!("{} disagreements with node-semver compare(); first: {}", dis, first));
    }
    Ok(json!({"against": "frozen node-semver 7.6.2 compare() table", "pairs": u.len() * u.len(), "disagreements": 0, "cells_explained_by_node_comparing_numeric_identifiers_as_doubles": f64_cells}))
}

/// What node-semver's comparePre does: identifiers left to right; two numeric identifiers are
/// compared as IEEE doubles and, if the doubles are equal although the texts differ, the whole
/// comparison returns 0 at that point.
fn rcmp_f64(a: &Version, b: &Version) -> Ordering {
    use nodejs_semver::Identifier::*;
    for (x, y) in [(a.major, b.major), (a.minor, b.minor), (a.patch, b.patch)] {
        if x != y {
            return if x < y { Ordering::Less } else { Ordering::Greater };
        }
    }
    match (a.pre_release.is_empty(), b.pre_release.is_empty()) {
        (true, true) => return Ordering::Equal,
        (true, false) => return Ordering::Greater,
        (false, true) => return Ordering::Less,
        _ => {}
    }
    let mut i = 0;
    loop {
        match (a.pre_release.get(i), b.pre_release.get(i)) {
            (None, None) => return Ordering::Equal,
            (Some(_), None) => return Ordering::Greater,
            (None, Some(_)) => return Ordering::Less,
            (Some(Numeric(p)), Some(Numeric(q))) => {
                if p != q {
                    let (fp, fq) = (*p as f64, *q as f64);
                    return if fp < fq { Ordering::Less } else if fp > fq { Ordering::Greater } else { Ordering::Equal };
                }
            }
            (Some(x), Some(y)) => {
                let o = id_cmp(x, y);
                if o != Ordering::Equal {
                    return o;
                }
            }
        }
        i += 1;
    }
}

// ------------------------------------------------------------------- C16 ---

pub fn c16_universe() -> Vec<Version> {
    let tags = ["", "0", "1", "a", "a.0", "a.1", "b", "0.a", "1.0", "a.0.1", "a.0.b", "-1", "-a", "A", "A.0"];
    let mut out = vec![];
    for ma in 0..3u64 {
        for mi in 0..3u64 {
            for pa in 0..3u64 {
                for t in tags {
                    out.push(ver(ma, mi, pa, t));
                    out.push(verb(ma, mi, pa, t, "b"));
                }
            }
        }
    }
    out
}

/// Release-type difference written from the statement of C16 / node-semver's documentation.
pub fn rdiff(a: &Version, b: &Version) -> Option<&'static str> {
    let o = rcmp(a, b);
    if o == Ordering::Equal {
        return None;
    }
    let (high, low) = if o == Ordering::Greater { (a, b) } else { (b, a) };
    let (hp, lp) = (is_pre(high), is_pre(low));
    if lp && !hp {
        // going from a prerelease to a release
        if low.minor == 0 && low.patch == 0 {
            return Some("major");
        }
        if high.patch != 0 {
            return Some("patch");
        }
        if high.minor != 0 {
            return Some("minor");
        }
        return Some("major");
    }
    let field = if a.major != b.major {
        "major"
    } else if a.minor != b.minor {
        "minor"
    } else if a.patch != b.patch {
        "patch"
    } else {
        return Some("prerelease");
    };
    Some(match (hp, field) {
        (false, f) => f,
        (true, "major") => "premajor",
        (true, "minor") => "preminor",
        (true, _) => "prepatch",
    })
}

fn diff_text(d: Option<VersionDiff>) -> Option<String> {
    d.map(|x| x.to_string())
}

fn diff_code(s: Option<&str>) -> u8 {
    match s {
        None => b'0',
        Some("major") => b'M',
        Some("minor") => b'm',
        Some("patch") => b'p',
        Some("premajor") => b'A',
        Some("preminor") => b'B',
        Some("prepatch") => b'C',
        Some("prerelease") => b'R',
        _ => b'?',
    }
}

pub fn check_c16_pair(a: &Version, b: &Version, node: Option<u8>, sink: &Sink) {
        crate::report::beat();
    let key = format!("a={}|b={}", vtext_full(a), vtext_full(b));
    let case = || json!({"engine":"D","kind":"c16-pair","a":vjson(a),"b":vjson(b)});
    let got = match guarded(|| a.diff(b)) {
        Ok(x) => x,
        Err(m) => {
            sink.report("value", key, case(), format!("panic: {}", m), "returns".into());
            return;
        }
    };
    let want = rdiff(a, b);
    let gt = diff_text(got);
    if gt.as_deref() != want {
        sink.report("value", key.clone(), case(), format!("{:?}", gt), format!("{:?}", want));
    }
    if let Some(nc) = node {
        if diff_code(gt.as_deref()) != nc {
            sink.report("value", format!("{}|node", key), case(), format!("{:?}", gt), format!("node-semver code {}", nc as char));
        }
    }
    let back = diff_text(b.diff(a));
    if back != gt {
        sink.report("symm", key.clone(), case(), format!("a.diff(b)={:?} b.diff(a)={:?}", gt, back), "equal".into());
    }
    if got.is_none() != (rcmp(a, b) == Ordering::Equal) {
        sink.report("none", key.clone(), case(), format!("{:?}", gt), "None iff precedence-equal".into());
    }
    // build never matters
    let mut a2 = a.clone();
    a2.build = ids("zz.1");
    let mut b2 = b.clone();
    b2.build = vec![];
    if diff_text(a2.diff(&b2)) != gt {
        sink.report("build", key.clone(), case(), format!("{:?}", diff_text(a2.diff(&b2))), format!("{:?}", gt));
    }
    // Display of the enum is the node release type name
    if let Some(d) = got {
        let names = ["major", "minor", "patch", "premajor", "preminor", "prepatch", "prerelease"];
        if !names.contains(&d.to_string().as_str()) {
            sink.report("display", key, case(), d.to_string(), "a node release type".into());
        }
    }
}

pub fn run_c16(_tier: &str, sink: &Sink) -> DOut {
    let u = c16_universe();
    let n = u.len();
    let path = format!("{}/fixtures/npm-7.6.2/diff.json", home_dir());
    let fx: Value = match std::fs::read_to_string(&path).ok().and_then(|t| serde_json::from_str(&t).ok()) {
        Some(v) => v,
        None => {
            eprintln!("MACHINERY: cannot read {}", path);
            std::process::exit(2);
        }
    };
    let fv: Vec<String> = fx["versions"].as_array().map(|a| a.iter().map(|x| x.as_str().unwrap_or("").to_string()).collect()).unwrap_or_default();
    if fv != universe_texts(&u) {
        eprintln!("MACHINERY: diff fixture universe differs from the current universe: regenerate");
        std::process::exit(2);
    }
    let rows: Vec<Vec<u8>> = fx["rows"].as_array().unwrap().iter().map(|r| r.as_str().unwrap().as_bytes().to_vec()).collect();
    let nontrivial = AtomicU64::new(0);
    let per_kind: Vec<AtomicU64> = (0..8).map(|_| AtomicU64::new(0)).collect();
    // the parsed twin of every universe text: diff between parsed values must be the diff between
    // the values the texts denote (a parser that reads a tag differently changes diff's answer)
    let twins: Vec<Option<Version>> = u.iter().map(|v| guarded(|| Version::parse(vtext_full(v))).ok().and_then(|r| r.ok())).collect();
    (0..n).into_par_iter().for_each(|i| {
        for j in 0..n {
            check_c16_pair(&u[i], &u[j], Some(rows[i][j]), sink);
            if let (Some(a), Some(b)) = (&twins[i], &twins[j]) {
                if let Ok(got) = guarded(|| a.diff(b)) {
                    let gt = diff_text(got);
                    if gt.as_deref() != rdiff(&u[i], &u[j]) {
                        sink.report("value-parsed", format!("a={}|b={}", vtext_full(&u[i]), vtext_full(&u[j])), json!({"engine":"D","kind":"c16-parsed","a":vtext_full(&u[i]),"b":vtext_full(&u[j])}), format!("diff of the parsed texts = {:?}", gt), format!("{:?}", rdiff(&u[i], &u[j])));
                    }
                }
            }
            let k = match rdiff(&u[i], &u[j]) {
                None => 0,
                Some("major") => 1,
                Some("minor") => 2,
                Some("patch") => 3,
                Some("premajor") => 4,
                Some("preminor") => 5,
                Some("prepatch") => 6,
                _ => 7,
            };
            per_kind[k].fetch_add(1, AO::Relaxed);
            if k != 0 {
                nontrivial.fetch_add(1, AO::Relaxed);
            }
        }
    });
    // numeric extension (reference statement only): multi-digit and limit components
    let nums = [0u64, 1, 2, 10, 256, 65536, 4294967296, MAX_SAFE];
    let mut ext: Vec<Version> = vec![];
    for a in nums {
        for b in nums {
            for c in nums {
                for t in ["", "a", "10"] {
                    ext.push(ver(a, b, c, t));
                }
            }
        }
    }
    let m = ext.len();
    let step = 1;
    let ext_pairs = AtomicU64::new(0);
    (0..m).into_par_iter().for_each(|i| {
        let mut cnt = 0;
        let mut j = i % step;
        while j < m {
            check_c16_pair(&ext[i], &ext[j], None, sink);
            cnt += 1;
            j += step;
        }
        ext_pairs.fetch_add(cnt, AO::Relaxed);
    });
    let mut counters = BTreeMap::new();
    counters.insert("versions".into(), (n + m) as u64);
    counters.insert("ordered_pairs".into(), (n * n) as u64 + ext_pairs.load(AO::Relaxed));
    counters.insert("numeric_extension_pairs".into(), ext_pairs.load(AO::Relaxed));
    counters.insert("nontrivial".into(), nontrivial.load(AO::Relaxed));
    let mut extra = BTreeMap::new();
    extra.insert("pairs_per_expected_answer".into(), json!({"none": per_kind[0].load(AO::Relaxed), "major": per_kind[1].load(AO::Relaxed), "minor": per_kind[2].load(AO::Relaxed), "patch": per_kind[3].load(AO::Relaxed), "premajor": per_kind[4].load(AO::Relaxed), "preminor": per_kind[5].load(AO::Relaxed), "prepatch": per_kind[6].load(AO::Relaxed), "prerelease": per_kind[7].load(AO::Relaxed)}));
    extra.insert("oracle_crosscheck".into(), json!({"against": "frozen node-semver 7.6.2 diff() table, every pair compared with the crate and with the reference statement", "pairs": n * n}));
    DOut {
        counters,
        samples: vec![json!({"pair": ["0.1.0-a", "0.1.0"], "expected": "minor"}), json!({"pair": [vtext_full(&u[100]), vtext_full(&u[400])]})],
        rule: "Engine D / C16: all ordered pairs of {0,1,2}^3 x 9 prerelease tags x {no build, +b} (486 versions); oracle = the release-type rules written from the statement AND the frozen node-semver 7.6.2 diff() answer for every pair; non-trivial = pairs that are not precedence-equal".into(),
        extra,
    }
}

// ------------------------------------------------------------------- C14 ---

pub fn c14_pool() -> Vec<Version> {
    vec![
        ver(1, 0, 0, ""),
        ver(1, 2, 3, ""),
        ver(1, 2, 4, ""),
        ver(2, 0, 0, ""),
        ver(1, 2, 3, "a"),
        ver(1, 2, 3, "b"),
        ver(1, 3, 0, "a"),
        ver(2, 0, 0, "0"),
        ver(3, 0, 0, "rc.1"),
        verb(1, 2, 4, "", "b"),
        verb(1, 2, 4, "", "c.1"),
        verb(1, 2, 3, "a", "x"),
        ver(0, 0, 0, ""),
        ver(0, 0, 0, "0"),
        // prereleases sharing only part of the triple of some tagged bound of C14_RANGES
        ver(1, 0, 0, "a"),
        ver(1, 2, 4, "a"),
        ver(2, 2, 3, "a"),
    ]
}

pub const C14_RANGES: [&str; 50] = [
    "<1.3", ">=1.0.0 <=1.2.4-b", ">=1.0.0 <2.0.0-rc.2", ">=1.2.3-a <3",
    "1.x || ^1.2.3-a", "<3.0.0 || 1.0.0 - 1.2.3-b", ">=1.0.0 || 1.2.3-a", "^1.2.3-a || 1.x", "* || 2.0.0-0", ">=1.2.3-a <1.2.3 || <=1.2.3-b || 1.x",
    "*", "1.2.3", "=1.2.4", ">1.2.3", ">=1.2.3", "<1.2.4", "<=1.2.4", "~1.2.3", "^1.2.3", "1.x", "1.2.x", "1 - 2", "1.2.3 - 1.2.4", ">=1.2.3-a", ">1.2.3-a", "<1.2.3-b", "<=1.2.3-b",
    "~1.2.3-a", "^1.2.3-a", "1.2.3-a", "1.2.3-a - 1.2.3-b", ">=1.2.3-a <1.3.0", ">=1.3.0-a", "^2.0.0-0", ">=3.0.0-rc.0", "<0.0.0-1", ">=0.0.0-0", "1.2.3 || 2.0.0", "1.2.3-a || >=2", "<1.0.0 || >2.0.0",
    ">=1.0.0 <1.0.0", ">5", "<0.0.0", "1.2.3-a || 1.2.3-b", "^0.0.0-0", ">=1.2.4 <1.2.4-0", "2.x || 1.2.3-b", ">=1.2.3+b", "<=1.2.4+zzz", "0.0.0-0 - 3.0.0-rc.1",
];

pub fn check_c14(range_text: &str, r: &Range, list: &[Version], sink: &Sink) {
        crate::report::beat();
    let key = format!("range={}|list=[{}]", range_text, list.iter().map(vtext_full).collect::<Vec<_>>().join(","));
    let case = || json!({"engine":"D","kind":"c14","range":range_text,"list":list.iter().map(vjson).collect::<Vec<_>>()});
    let sat: Vec<bool> = list.iter().map(|v| r.satisfies(v)).collect();
    for (which, res) in [("max", guarded(|| r.max_satisfying(list))), ("min", guarded(|| r.min_satisfying(list)))] {
        let res = match res {
            Ok(x) => x,
            Err(m) => {
                sink.report("none", format!("{}|{}", key, which), case(), format!("panic: {}", m), "returns".into());
                continue;
            }
        };
        let any = sat.iter().any(|x| *x);
        match res {
            None => {
                if any {
                    sink.report("none", format!("{}|{}", key, which), case(), "None".into(), "Some(satisfying element)".into());
                }
            }
            Some(p) => {
                let idx = list.iter().position(|v| std::ptr::eq(v, p));
                let Some(idx) = idx else {
                    sink.report("not-element", format!("{}|{}", key, which), case(), format!("{} is not a reference into the slice", vtext_full(p)), "element of the slice".into());
                    continue;
                };
                if !sat[idx] {
                    sink.report("not-satisfying", format!("{}|{}", key, which), case(), format!("{} does not satisfy", vtext_full(p)), if any { "a satisfying element".into() } else { "None".into() });
                    continue;
                }
                // "never selects a prerelease the range does not admit": admission by the reference
                // gate over the crate's own bounds (the same statement Engine C checks for C03), so a
                // gate that opens wrongly is seen at the resolver too
                if is_pre(p) {
                    if let Ok(ivs) = guarded(|| crate::engine_c::intervals_of(r)) {
                        if !ivs.iter().any(|iv| iv.sat(p)) {
                            sink.report("admit", format!("{}|{}", key, which), case(), format!("selected the prerelease {}", vtext_full(p)), "a version the range admits: no alternative both contains it and has a bound tagged on its major.minor.patch".into());
                            continue;
                        }
                    }
                }
                for (i, v) in list.iter().enumerate() {
                    if !sat[i] {
                        continue;
                    }
                    let o = rcmp(v, p);
                    if (which == "max" && o == Ordering::Greater) || (which == "min" && o == Ordering::Less) {
                        sink.report("not-extreme", format!("{}|{}", key, which), case(), vtext_full(p), format!("{} satisfies and is {}", vtext_full(v), if which == "max" { "higher" } else { "lower" }));
                        break;
                    }
                }
            }
        }
    }
}

pub fn run_c14(tier: &str, sink: &Sink) -> DOut {
    let pool = c14_pool();
    let ranges: Vec<(String, Range)> = C14_RANGES.iter().filter_map(|t| Range::parse(t).ok().map(|r| (t.to_string(), r))).collect();
    let m = pool.len();
    let maxlen = if tier == "thorough" { 4 } else { 3 };
    let evals = AtomicU64::new(0);
    let nontrivial = AtomicU64::new(0);
    // lists enumerated by index tuples
    let mut tuples: Vec<Vec<usize>> = vec![vec![]];
    for a in 0..m {
        tuples.push(vec![a]);
        for b in 0..m {
            tuples.push(vec![a, b]);
            for c in 0..m {
                tuples.push(vec![a, b, c]);
                if maxlen >= 4 {
                    for d in 0..m {
                        tuples.push(vec![a, b, c, d]);
                    }
                }
            }
        }
    }
    tuples.par_iter().for_each(|t| {
        let list: Vec<Version> = t.iter().map(|i| pool[*i].clone()).collect();
        for (text, r) in &ranges {
            evals.fetch_add(1, AO::Relaxed);
            let s = list.iter().filter(|v| r.satisfies(v)).count();
            if s >= 1 && s < list.len() {
                nontrivial.fetch_add(1, AO::Relaxed);
            }
            check_c14(text, r, &list, sink);
        }
    });
    // long lists (an implementation may switch algorithm at some length): lengths around powers of
    // two up to 1025, every rotation (at most 64) of a base sequence rich in same-triple prereleases
    let mut base: Vec<Version> = pool.clone();
    for t in ["a.1", "a.2", "b", "rc.1", "rc.2", "0"] {
        base.push(ver(2, 0, 0, t));
        base.push(ver(1, 2, 3, t));
        base.push(ver(0, 1, 0, t));
    }
    for i in 0..20u64 {
        base.push(ver(1, i, 0, ""));
    }
    let lens = [5usize, 8, 9, 16, 17, 31, 32, 33, 34, 63, 64, 65, 127, 128, 129, 257, 1025];
    let long_evals = AtomicU64::new(0);
    lens.par_iter().for_each(|&len| {
        let seq: Vec<Version> = (0..len).map(|i| base[(i * 7 + i / base.len()) % base.len()].clone()).collect();
        for rot in 0..len.min(64) {
            let mut list = seq.clone();
            list.rotate_left(rot * len / len.min(64));
            for (text, r) in &ranges {
                long_evals.fetch_add(1, AO::Relaxed);
                check_c14(text, r, &list, sink);
            }
        }
    });
    evals.fetch_add(long_evals.load(AO::Relaxed), AO::Relaxed);
    let mut counters = BTreeMap::new();
    counters.insert("long_list_evaluations".into(), long_evals.load(AO::Relaxed));
    counters.insert("pool".into(), m as u64);
    counters.insert("ranges".into(), ranges.len() as u64);
    counters.insert("ranges_not_parsing".into(), (C14_RANGES.len() - ranges.len()) as u64);
    counters.insert("lists".into(), tuples.len() as u64);
    counters.insert("evaluations".into(), evals.load(AO::Relaxed));
    counters.insert("nontrivial".into(), nontrivial.load(AO::Relaxed));
    DOut {
        counters,
        samples: vec![json!({"range": "^1.2.3-a", "list": ["1.3.0-a", "1.2.3-b", "1.2.4+b"]}), json!({"range": C14_RANGES[33], "list": ["2.0.0-0", "0.0.0"]})],
        rule: "Engine D / C14: every list of length 0..=L over a 14-version pool (releases, admitted and non-admitted prereleases, duplicates, versions equal up to build metadata) x 40 ranges (one per operator form, with/without prerelease opt-in, multi-alternative, unsatisfiable); oracle = definition of max/min over the satisfying elements in reference order + pointer identity with a slice element; all permutations are part of the enumeration; non-trivial = (list, range) with some but not all elements satisfying".into(),
        extra: BTreeMap::new(),
    }
}

// ------------------------------------------------------------------- C18 ---

macro_rules! chk3 {
    ($t:ty, $a:expr, $b:expr, $c:expr, $sink:expr) => {{
        let (a, b, c): ($t, $t, $t) = ($a, $b, $c);
        let (x, y, z) = (a as u64, b as u64, c as u64);
        let v = match guarded(|| Version::from((a, b, c))) {
            Ok(v) => v,
            Err(m) => {
                $sink.report("fields3", format!("type={}|t=({},{},{})|panic", stringify!($t), a, b, c), json!({"engine":"D","kind":"c18","type":stringify!($t),"t":[x, y, z]}), format!("the conversion panics: {}", m), format!("{}.{}.{}", x, y, z));
                ver(x, y, z, "")
            }
        };
        if v.major != x || v.minor != y || v.patch != z || !v.pre_release.is_empty() || !v.build.is_empty() {
            $sink.report("fields3", format!("type={}|t=({},{},{})", stringify!($t), a, b, c), json!({"engine":"D","kind":"c18","type":stringify!($t),"t":[x, y, z]}), vtext_full(&v), format!("{}.{}.{}", x, y, z));
        }
        v
    }};
}
macro_rules! chk4 {
    ($t:ty, $a:expr, $b:expr, $c:expr, $d:expr, $sink:expr) => {{
        let (a, b, c, d): ($t, $t, $t, $t) = ($a, $b, $c, $d);
        let (x, y, z, w) = (a as u64, b as u64, c as u64, d as u64);
        let v = match guarded(|| Version::from((a, b, c, d))) {
            Ok(v) => v,
            Err(m) => {
                $sink.report("fields4", format!("type={}|t=({},{},{},{})|panic", stringify!($t), a, b, c, d), json!({"engine":"D","kind":"c18","type":stringify!($t),"t":[x, y, z, w]}), format!("the conversion panics: {}", m), format!("{}.{}.{}-{}", x, y, z, w));
                ver(x, y, z, &w.to_string())
            }
        };
        let ok = v.major == x && v.minor == y && v.patch == z && v.build.is_empty() && ids_same(&v.pre_release, &[nodejs_semver::Identifier::Numeric(w)]);
        if !ok {
            $sink.report("fields4", format!("type={}|t=({},{},{},{})", stringify!($t), a, b, c, d), json!({"engine":"D","kind":"c18","type":stringify!($t),"t":[x, y, z, w]}), vtext_full(&v), format!("{}.{}.{}-{}", x, y, z, w));
        }
        v
    }};
}

fn against_parse(v: &Version, text: &str, clause: &str, ty: &str, sink: &Sink) {
        crate::report::beat();
    let case = || json!({"engine":"D","kind":"c18-text","type":ty,"text":text});
    // a different history: the same version with build metadata is parsed and printed first (the
    // answer for `text` must not depend on earlier calls)
    if let Ok(sib) = Version::parse(format!("{}+zz.9", text)) {
        let _ = sib.to_string();
    }
    let printed = v.to_string();
    if printed != text {
        sink.report(if clause == "fields3" { "print3" } else { "print4" }, format!("type={}|text={}", ty, text), case(), printed, text.to_string());
    }
    match Version::parse(text) {
        Ok(p) => {
            if !same_fields(&p, v) || p != *v {
                sink.report(clause, format!("type={}|text={}|parse", ty, text), case(), vtext_full(v), vtext_full(&p));
            }
        }
        Err(e) => sink.report(clause, format!("type={}|text={}|parse", ty, text), case(), format!("parse fails: {}", e.kind()), "Ok".into()),
    }
}

pub fn run_c18(tier: &str, sink: &Sink) -> DOut {
    let n3 = AtomicU64::new(0);
    let n4 = AtomicU64::new(0);
    // u8: all triples, compared with the parse of the dotted string
    (0..=255u8).into_par_iter().for_each(|a| {
        let mut cnt = 0;
        for b in 0..=255u8 {
            for c in 0..=255u8 {
                let v = chk3!(u8, a, b, c, sink);
                against_parse(&v, &format!("{}.{}.{}", a, b, c), "fields3", "u8", sink);
                cnt += 1;
            }
        }
        n3.fetch_add(cnt, AO::Relaxed);
    });
    // i8: all non-negative triples; quadruples exhaustively in thorough, over a boundary set in quick
    (0..=127i8).into_par_iter().for_each(|a| {
        let mut c3 = 0;
        let mut c4 = 0;
        for b in 0..=127i8 {
            for c in 0..=127i8 {
                let v = chk3!(i8, a, b, c, sink);
                let v8 = guarded(|| Version::from((a as u8, b as u8, c as u8))).unwrap_or_else(|_| ver(a as u64, b as u64, c as u64, ""));
                if !same_fields(&v, &v8) {
                    sink.report("cross-type", format!("i8/u8|t=({},{},{})", a, b, c), json!({"engine":"D","kind":"c18","type":"i8","t":[a as u64, b as u64, c as u64]}), vtext_full(&v), vtext_full(&v8));
                }
                c3 += 1;
                if tier == "thorough" {
                    for d in 0..=127i8 {
                        let q = chk4!(i8, a, b, c, d, sink);
                        if d % 16 == 1 {
                            against_parse(&q, &format!("{}.{}.{}-{}", a, b, c, d), "fields4", "i8", sink);
                        }
                        c4 += 1;
                    }
                }
            }
        }
        n3.fetch_add(c3, AO::Relaxed);
        n4.fetch_add(c4, AO::Relaxed);
    });
    // quadruples: boundary product + each coordinate swept fully (u8, i8)
    let bu8 = [0u8, 1, 2, 127, 128, 254, 255];
    for &a in &bu8 {
        for &b in &bu8 {
            for &c in &bu8 {
                for &d in &bu8 {
                    let q = chk4!(u8, a, b, c, d, sink);
                    against_parse(&q, &format!("{}.{}.{}-{}", a, b, c, d), "fields4", "u8", sink);
                    n4.fetch_add(1, AO::Relaxed);
                }
            }
        }
    }
    for pos in 0..4 {
        for x in 0..=255u8 {
            let mut t = [1u8, 2, 3, 4];
            t[pos] = x;
            let q = chk4!(u8, t[0], t[1], t[2], t[3], sink);
            against_parse(&q, &format!("{}.{}.{}-{}", t[0], t[1], t[2], t[3]), "fields4", "u8", sink);
            n4.fetch_add(1, AO::Relaxed);
            if x <= 127 {
                let mut s = [1i8, 2, 3, 4];
                s[pos] = x as i8;
                let q = chk4!(i8, s[0], s[1], s[2], s[3], sink);
                against_parse(&q, &format!("{}.{}.{}-{}", s[0], s[1], s[2], s[3]), "fields4", "i8", sink);
                n4.fetch_add(1, AO::Relaxed);
            }
        }
    }
    // wider types: product of boundary sets in every coordinate, cross-type agreement
    macro_rules! wide {
        ($t:ty, $vals:expr) => {{
            let vals: Vec<$t> = $vals;
            for &a in &vals {
                for &b in &vals {
                    for &c in &vals {
                        let v = chk3!($t, a, b, c, sink);
                        against_parse(&v, &format!("{}.{}.{}", a, b, c), "fields3", stringify!($t), sink);
                        let w = guarded(|| Version::from((a as u64, b as u64, c as u64))).unwrap_or_else(|_| ver(a as u64, b as u64, c as u64, ""));
                        if !same_fields(&v, &w) {
                            sink.report("cross-type", format!("{}/u64|t=({},{},{})", stringify!($t), a, b, c), json!({"engine":"D","kind":"c18","type":stringify!($t),"t":[a as u64, b as u64, c as u64]}), vtext_full(&v), vtext_full(&w));
                        }
                        n3.fetch_add(1, AO::Relaxed);
                        for &d in &vals {
                            let q = chk4!($t, a, b, c, d, sink);
                            if (a as u64) <= MAX_SAFE && (b as u64) <= MAX_SAFE && (c as u64) <= MAX_SAFE {
                                against_parse(&q, &format!("{}.{}.{}-{}", a, b, c, d), "fields4", stringify!($t), sink);
                            }
                            let w = guarded(|| Version::from((a as u64, b as u64, c as u64, d as u64))).unwrap_or_else(|_| ver(a as u64, b as u64, c as u64, &(d as u64).to_string()));
                            if !same_fields(&q, &w) {
                                sink.report("cross-type", format!("{}/u64|t=({},{},{},{})", stringify!($t), a, b, c, d), json!({"engine":"D","kind":"c18","type":stringify!($t),"t":[a as u64, b as u64, c as u64, d as u64]}), vtext_full(&q), vtext_full(&w));
                            }
                            n4.fetch_add(1, AO::Relaxed);
                        }
                    }
                }
            }
        }};
    }
    wide!(u16, vec![0, 1, 2, 255, 256, 32767, 32768, 65534, 65535]);
    wide!(i16, vec![0, 1, 2, 127, 128, 255, 256, 32766, 32767]);
    wide!(u32, vec![0, 1, 2, 65535, 65536, 2147483647, 2147483648, 4294967294, 4294967295]);
    wide!(i32, vec![0, 1, 2, 32767, 32768, 65535, 65536, 2147483646, 2147483647]);
    wide!(u64, vec![0, 1, 2, 4294967295, 4294967296, MAX_SAFE - 1, MAX_SAFE]);
    wide!(i64, vec![0, 1, 2, 2147483647, 2147483648, (MAX_SAFE - 1) as i64, MAX_SAFE as i64]);
    wide!(usize, vec![0, 1, 2, 4294967295, 4294967296, (MAX_SAFE - 1) as usize, MAX_SAFE as usize]);
    wide!(isize, vec![0, 1, 2, 2147483647, 2147483648, (MAX_SAFE - 1) as isize, MAX_SAFE as isize]);
    let mut counters = BTreeMap::new();
    counters.insert("triples".into(), n3.load(AO::Relaxed));
    counters.insert("quadruples".into(), n4.load(AO::Relaxed));
    DOut {
        counters,
        samples: vec![json!({"type":"u8","tuple":[255, 0, 128],"text":"255.0.128"}), json!({"type":"i64","tuple":[0, 900719925474099u64, 1, 2147483648u64],"text":"0.900719925474099.1-2147483648"})],
        rule: "Engine D / C18: u8: all 256^3 triples; i8: all 128^3 non-negative triples (and all 128^4 quadruples in thorough); u8/i8 quadruples: boundary product {0,1,2,127,128,254,255}^4 plus every coordinate swept over its full range; u16..usize, i16..isize: product of boundary sets incl. MAX_SAFE_INTEGER-1 and MAX_SAFE_INTEGER in every coordinate; oracle = field equality with Version::parse of the dotted text, printed form, agreement across integer types; non-trivial = every tuple (each is a distinct value)".into(),
        extra: BTreeMap::new(),
    }
}

// ------------------------------------------------------------------ replay ---

pub fn replay(prop: &str, case: &Value, sink: &Sink) {
    match (prop, case["kind"].as_str().unwrap_or("")) {
        ("C04", "c04-pair") => check_c04_pair(&vfrom(&case["a"]), &vfrom(&case["b"]), sink),
        ("C04", "c04-parsed") => {
            let (ta, tb) = (case["a"].as_str().unwrap_or(""), case["b"].as_str().unwrap_or(""));
            // rebuild the reference values with the hand-written recogniser of engine B
            if let (Some(da), Some(db), Ok(a), Ok(b)) = (crate::engine_b::recognise(ta), crate::engine_b::recognise(tb), Version::parse(ta), Version::parse(tb)) {
                let ra = Version { major: da.major, minor: da.minor, patch: da.patch, pre_release: da.pre, build: da.build };
                let rb = Version { major: db.major, minor: db.minor, patch: db.patch, pre_release: db.pre, build: db.build };
                let want = rcmp(&ra, &rb);
                let got = a.cmp(&b);
                if got != want || (a == b) != (want == Ordering::Equal) || (want == Ordering::Equal && h1(&a) != h1(&b)) {
                    sink.report("cmp-parsed", format!("a={}|b={}", ta, tb), case.clone(), format!("cmp of the parsed texts = {:?}, == is {}", got, a == b), format!("{:?}", want));
                }
            }
        }
        ("C04", "c04-triple") => {
            let (a, b, c) = (vfrom(&case["a"]), vfrom(&case["b"]), vfrom(&case["c"]));
            if a <= b && b <= c && !(a <= c) {
                sink.report("trans", format!("a={}|b={}|c={}", vtext_full(&a), vtext_full(&b), vtext_full(&c)), case.clone(), "a<=b and b<=c but not a<=c".into(), "transitive".into());
            }
        }
        ("C04", "c04-list") => {
            let l: Vec<Version> = case["list"].as_array().unwrap().iter().map(vfrom).collect();
            let r: Vec<&Version> = l.iter().collect();
            check_list(&r, sink);
        }
        ("C16", "c16-parsed") => {
            let (ta, tb) = (case["a"].as_str().unwrap_or(""), case["b"].as_str().unwrap_or(""));
            if let (Some(da), Some(db), Ok(a), Ok(b)) = (crate::engine_b::recognise(ta), crate::engine_b::recognise(tb), Version::parse(ta), Version::parse(tb)) {
                let ra = Version { major: da.major, minor: da.minor, patch: da.patch, pre_release: da.pre, build: da.build };
                let rb = Version { major: db.major, minor: db.minor, patch: db.patch, pre_release: db.pre, build: db.build };
                if let Ok(got) = guarded(|| a.diff(&b)) {
                    let gt = diff_text(got);
                    if gt.as_deref() != rdiff(&ra, &rb) {
                        sink.report("value-parsed", format!("a={}|b={}", ta, tb), case.clone(), format!("diff of the parsed texts = {:?}", gt), format!("{:?}", rdiff(&ra, &rb)));
                    }
                }
            }
        }
        ("C16", "c16-pair") => {
            let (a, b) = (vfrom(&case["a"]), vfrom(&case["b"]));
            // node's frozen answer for this pair, if it is part of the fixture universe
            let u = c16_universe();
            let texts = universe_texts(&u);
            let node = (|| {
                let i = texts.iter().position(|t| *t == vtext_full(&a))?;
                let j = texts.iter().position(|t| *t == vtext_full(&b))?;
                let fx: Value = serde_json::from_str(&std::fs::read_to_string(format!("{}/fixtures/npm-7.6.2/diff.json", home_dir())).ok()?).ok()?;
                Some(fx["rows"][i].as_str()?.as_bytes()[j])
            })();
            check_c16_pair(&a, &b, node, sink)
        }
        ("C14", "c14") => {
            let t = case["range"].as_str().unwrap_or("*");
            if let Ok(r) = Range::parse(t) {
                let l: Vec<Version> = case["list"].as_array().unwrap().iter().map(vfrom).collect();
                check_c14(t, &r, &l, sink);
            }
        }
        ("C18", _) => {
            let ty = case["type"].as_str().unwrap_or("u64");
            let t: Vec<u64> = if let Some(a) = case["t"].as_array() {
                a.iter().map(|x| x.as_u64().unwrap_or(0)).collect()
            } else {
                // text form a.b.c[-d]
                let text = case["text"].as_str().unwrap_or("0.0.0");
                text.split(|c| c == '.' || c == '-').filter_map(|x| x.parse().ok()).collect()
            };
            macro_rules! one {
                ($t:ty) => {{
                    if t.len() == 3 {
                        let v = chk3!($t, t[0] as $t, t[1] as $t, t[2] as $t, sink);
                        against_parse(&v, &format!("{}.{}.{}", t[0], t[1], t[2]), "fields3", ty, sink);
                        let w = Version::from((t[0], t[1], t[2]));
                        if !same_fields(&v, &w) {
                            sink.report("cross-type", format!("{}/u64|t=({},{},{})", ty, t[0], t[1], t[2]), case.clone(), vtext_full(&v), vtext_full(&w));
                            sink.report("cross-type", format!("i8/u8|t=({},{},{})", t[0], t[1], t[2]), case.clone(), vtext_full(&v), vtext_full(&w));
                        }
                    } else if t.len() == 4 {
                        let q = chk4!($t, t[0] as $t, t[1] as $t, t[2] as $t, t[3] as $t, sink);
                        against_parse(&q, &format!("{}.{}.{}-{}", t[0], t[1], t[2], t[3]), "fields4", ty, sink);
                        let w = Version::from((t[0], t[1], t[2], t[3]));
                        if !same_fields(&q, &w) {
                            sink.report("cross-type", format!("{}/u64|t=({},{},{},{})", ty, t[0], t[1], t[2], t[3]), case.clone(), vtext_full(&q), vtext_full(&w));
                        }
                    }
                }};
            }
            match ty {
                "u8" => one!(u8),
                "i8" => one!(i8),
                "u16" => one!(u16),
                "i16" => one!(i16),
                "u32" => one!(u32),
                "i32" => one!(i32),
                "i64" => one!(i64),
                "usize" => one!(usize),
                "isize" => one!(isize),
                _ => one!(u64),
            }
        }
        _ => eprintln!("replay: unknown case for engine D"),
    }
}
