//! Range programs as ASTs: rendering (with bounded spelling deviations) and the
//! reference desugaring of DESIGN Appendix A (npm README "Advanced Range
//! Syntax", validated against node-semver 7.6.2 at design time and against the
//! frozen fixtures at run time).  Works on the AST only — shares no parsing
//! code or parsing assumptions with the crate.

use crate::refmodel::*;
use nodejs_semver::Version;

#[derive(Clone, Copy, Debug, PartialEq, Eq, Hash)]
pub enum Cmp {
    X,
    N(u64),
}

#[derive(Clone, Debug, PartialEq, Eq, Hash)]
pub struct Partial {
    pub c: Vec<Cmp>, // 1..=3 components
    pub pre: String, // dotted identifiers, "" = none (only on fully numeric triples)
    pub build: String,
}

#[derive(Clone, Copy, Debug, PartialEq, Eq, Hash)]
pub enum Op {
    Bare,
    Eq,
    Lt,
    Le,
    Gt,
    Ge,
    Tilde,
    TildeGt,
    Caret,
}

pub const ALL_OPS: [Op; 9] = [Op::Bare, Op::Eq, Op::Lt, Op::Le, Op::Gt, Op::Ge, Op::Tilde, Op::TildeGt, Op::Caret];

impl Op {
    pub fn text(self) -> &'static str {
        match self {
            Op::Bare => "",
            Op::Eq => "=",
            Op::Lt => "<",
            Op::Le => "<=",
            Op::Gt => ">",
            Op::Ge => ">=",
            Op::Tilde => "~",
            Op::TildeGt => "~>",
            Op::Caret => "^",
        }
    }
}

#[derive(Clone, Debug, PartialEq, Eq, Hash)]
pub enum Simple {
    P(Op, Partial),
    Garbage(&'static str),
}

#[derive(Clone, Debug, PartialEq, Eq, Hash)]
pub enum Alt {
    Hyphen(Partial, Partial),
    Set(Vec<Simple>),
}

pub type Prog = Vec<Alt>;

// ------------------------------------------------------------ desugaring ---

/// normalised view: (M?, m?, p?) — once a component is a wildcard every later one is.
pub fn norm(p: &Partial) -> (Option<u64>, Option<u64>, Option<u64>) {
    let mut out = [None, None, None];
    for (i, c) in p.c.iter().enumerate() {
        match c {
            Cmp::X => break,
            Cmp::N(n) => out[i] = Some(*n),
        }
    }
    (out[0], out[1], out[2])
}

fn cmpr(op: COp, major: u64, minor: u64, patch: u64, pre: &str) -> Comparator {
    Comparator { op, v: ver(major, minor, patch, pre) }
}

pub fn any_cmp() -> Vec<Comparator> {
    vec![cmpr(COp::Ge, 0, 0, 0, "")]
}
pub fn none_cmp() -> Vec<Comparator> {
    vec![cmpr(COp::Lt, 0, 0, 0, "0")]
}

pub fn desugar_simple(op: Op, p: &Partial) -> Vec<Comparator> {
    use COp::*;
    let (ma, mi, pa) = norm(p);
    match (ma, mi, pa) {
        (None, _, _) => match op {
            Op::Gt | Op::Lt => none_cmp(),
            _ => any_cmp(),
        },
        (Some(a), None, _) => match op {
            Op::Bare | Op::Eq | Op::Tilde | Op::TildeGt | Op::Caret => {
                vec![cmpr(Ge, a, 0, 0, ""), cmpr(Lt, a + 1, 0, 0, "0")]
            }
            Op::Gt => vec![cmpr(Ge, a + 1, 0, 0, "")],
            Op::Ge => vec![cmpr(Ge, a, 0, 0, "")],
            Op::Lt => vec![cmpr(Lt, a, 0, 0, "0")],
            Op::Le => vec![cmpr(Lt, a + 1, 0, 0, "0")],
        },
        (Some(a), Some(b), None) => match op {
            Op::Bare | Op::Eq | Op::Tilde | Op::TildeGt => {
                vec![cmpr(Ge, a, b, 0, ""), cmpr(Lt, a, b + 1, 0, "0")]
            }
            Op::Caret => {
                if a == 0 {
                    vec![cmpr(Ge, 0, b, 0, ""), cmpr(Lt, 0, b + 1, 0, "0")]
                } else {
                    vec![cmpr(Ge, a, b, 0, ""), cmpr(Lt, a + 1, 0, 0, "0")]
                }
            }
            Op::Gt => vec![cmpr(Ge, a, b + 1, 0, "")],
            Op::Ge => vec![cmpr(Ge, a, b, 0, "")],
            Op::Lt => vec![cmpr(Lt, a, b, 0, "0")],
            Op::Le => vec![cmpr(Lt, a, b + 1, 0, "0")],
        },
        (Some(a), Some(b), Some(c)) => {
            let v = ver(a, b, c, &p.pre);
            match op {
                Op::Bare | Op::Eq => vec![Comparator { op: Eq, v }],
                Op::Gt => vec![Comparator { op: Gt, v }],
                Op::Ge => vec![Comparator { op: Ge, v }],
                Op::Lt => vec![Comparator { op: Lt, v }],
                Op::Le => vec![Comparator { op: Le, v }],
                Op::Tilde | Op::TildeGt => vec![Comparator { op: Ge, v }, cmpr(Lt, a, b + 1, 0, "0")],
                Op::Caret => {
                    let hi = if a > 0 {
                        cmpr(Lt, a + 1, 0, 0, "0")
                    } else if b > 0 {
                        cmpr(Lt, 0, b + 1, 0, "0")
                    } else {
                        cmpr(Lt, 0, 0, c + 1, "0")
                    };
                    vec![Comparator { op: Ge, v }, hi]
                }
            }
        }
    }
}

pub fn desugar_hyphen(lo: &Partial, hi: &Partial) -> Vec<Comparator> {
    use COp::*;
    let mut out = vec![];
    match norm(lo) {
        (None, _, _) => out.push(cmpr(Ge, 0, 0, 0, "")),
        (Some(a), None, _) => out.push(cmpr(Ge, a, 0, 0, "")),
        (Some(a), Some(b), None) => out.push(cmpr(Ge, a, b, 0, "")),
        (Some(a), Some(b), Some(c)) => out.push(Comparator { op: Ge, v: ver(a, b, c, &lo.pre) }),
    }
    match norm(hi) {
        (None, _, _) => {}
        (Some(a), None, _) => out.push(cmpr(Lt, a + 1, 0, 0, "0")),
        (Some(a), Some(b), None) => out.push(cmpr(Lt, a, b + 1, 0, "0")),
        (Some(a), Some(b), Some(c)) => out.push(Comparator { op: Le, v: ver(a, b, c, &hi.pre) }),
    }
    out
}

/// None = the text has no valid comparator in any alternative (npm: invalid range).
pub fn desugar(prog: &Prog) -> Option<Vec<Vec<Comparator>>> {
    let mut out = vec![];
    for alt in prog {
        match alt {
            Alt::Hyphen(a, b) => out.push(desugar_hyphen(a, b)),
            Alt::Set(simples) => {
                let mut set = vec![];
                let mut valid = false;
                for s in simples {
                    if let Simple::P(op, p) = s {
                        valid = true;
                        set.extend(desugar_simple(*op, p));
                    }
                }
                if valid {
                    out.push(set);
                }
            }
        }
    }
    if out.is_empty() {
        None
    } else {
        Some(out)
    }
}

/// node-semver's shortcut reading: `>=0.0.0` is "any" and is dropped next to
/// other comparators (DESIGN 2.1 (1)); cells where the two readings differ are don't-care.
pub fn loosen(sets: &[Vec<Comparator>]) -> Vec<Vec<Comparator>> {
    sets.iter()
        .map(|s| {
            s.iter()
                .filter(|c| !(c.op == COp::Ge && c.v.major == 0 && c.v.minor == 0 && c.v.patch == 0 && !is_pre(&c.v)))
                .cloned()
                .collect::<Vec<_>>()
        })
        .collect()
}

/// all versions mentioned by the desugared comparators
pub fn comparator_versions(sets: &[Vec<Comparator>]) -> Vec<Version> {
    sets.iter().flat_map(|s| s.iter().map(|c| c.v.clone())).collect()
}

// -------------------------------------------------------------- rendering ---

#[derive(Clone, Debug, PartialEq, Eq, Hash)]
pub enum Dev {
    LeadZero { alt: usize, simple: usize, side: usize, comp: usize },
    VPrefix { alt: usize, simple: usize, side: usize },
    OpGap { alt: usize, simple: usize, gap: &'static str },
    Wild { alt: usize, simple: usize, side: usize, comp: usize, ch: &'static str },
    NoTagHyphen { alt: usize, simple: usize, side: usize },
    Garbage { alt: usize, pos: usize, tok: &'static str },
    Sep { alt: usize, pos: usize, s: &'static str },
    TabLead,
    TabTrail,
    VSpace { alt: usize, simple: usize, side: usize },
    Or { idx: usize, s: &'static str },
    HyphenSep { alt: usize },
    Lead,
    Trail,
}

impl Dev {
    pub fn kind(&self) -> &'static str {
        match self {
            Dev::LeadZero { .. } => "leading-zero",
            Dev::VPrefix { .. } => "v-prefix",
            Dev::OpGap { .. } => "blank-after-operator",
            Dev::Wild { .. } => "X-or-star",
            Dev::NoTagHyphen { .. } => "tag-without-hyphen",
            Dev::Garbage { .. } => "garbage-token",
            Dev::Sep { s: "", .. } => "no-blank-between",
            Dev::Sep { .. } => "extra-blank-between",
            Dev::TabLead => "leading-blank",
            Dev::TabTrail => "trailing-blank",
            Dev::VSpace { .. } => "v-prefix",
            Dev::Or { .. } => "or-spacing",
            Dev::HyphenSep { .. } => "hyphen-spacing",
            Dev::Lead => "leading-blank",
            Dev::Trail => "trailing-blank",
        }
    }
    /// two deviations conflict if they rewrite the same site
    fn site(&self) -> String {
        match self {
            Dev::LeadZero { alt, simple, side, comp } | Dev::Wild { alt, simple, side, comp, .. } => {
                format!("c{}.{}.{}.{}", alt, simple, side, comp)
            }
            Dev::VPrefix { alt, simple, side } => format!("v{}.{}.{}", alt, simple, side),
            Dev::OpGap { alt, simple, .. } => format!("g{}.{}", alt, simple),
            Dev::NoTagHyphen { alt, simple, side } => format!("t{}.{}.{}", alt, simple, side),
            Dev::Garbage { alt, pos, .. } => format!("G{}.{}", alt, pos),
            Dev::Sep { alt, pos, .. } => format!("s{}.{}", alt, pos),
            Dev::TabLead => "L".into(),
            Dev::TabTrail => "T".into(),
            Dev::VSpace { alt, simple, side } => format!("v{}.{}.{}", alt, simple, side),
            Dev::Or { idx, .. } => format!("o{}", idx),
            Dev::HyphenSep { alt } => format!("h{}", alt),
            Dev::Lead => "L".into(),
            Dev::Trail => "T".into(),
        }
    }
    pub fn conflicts(&self, o: &Dev) -> bool {
        // a missing blank between two comparators (Sep with an empty separator) changes the value of
        // the text: it is only combined with deviations outside its alternative
        for (a, b) in [(self, o), (o, self)] {
            if let Dev::Sep { alt, s: "", .. } = a {
                if b.alt_of() == Some(*alt) {
                    return true;
                }
            }
        }
        self.site() == o.site()
    }
    fn alt_of(&self) -> Option<usize> {
        match self {
            Dev::LeadZero { alt, .. } | Dev::VPrefix { alt, .. } | Dev::OpGap { alt, .. } | Dev::Wild { alt, .. } | Dev::NoTagHyphen { alt, .. } | Dev::Garbage { alt, .. } | Dev::Sep { alt, .. } | Dev::VSpace { alt, .. } | Dev::HyphenSep { alt } => Some(*alt),
            _ => None,
        }
    }
}

/// Deviations that change the value: a missing blank between comparator k-1 and comparator k
/// (`>=1.2.3<2.0.0`) makes one token that is no comparator; npm (and the crate) drop it like any
/// other unparseable token. Returns the program the text then stands for.
pub fn effective(prog: &Prog, devs: &[Dev]) -> Prog {
    let mut out = prog.clone();
    for d in devs {
        if let Dev::Sep { alt, pos, s: "" } = d {
            if let Alt::Set(ss) = &mut out[*alt] {
                if *pos >= 1 && *pos < ss.len() {
                    ss[*pos - 1] = Simple::Garbage("foo");
                    ss[*pos] = Simple::Garbage("foo");
                }
            }
        }
    }
    out
}

/// the sites where a blank between two comparators can be left out so that the merged token can
/// never be a comparator: the second one starts with an operator character
pub fn nosep_sites(prog: &Prog) -> Vec<Dev> {
    let mut out = vec![];
    for (ai, alt) in prog.iter().enumerate() {
        if let Alt::Set(ss) = alt {
            for k in 1..ss.len() {
                if let (Simple::P(_, _), Simple::P(op, _)) = (&ss[k - 1], &ss[k]) {
                    if *op != Op::Bare {
                        out.push(Dev::Sep { alt: ai, pos: k, s: "" });
                    }
                }
            }
        }
    }
    out
}

/// pseudo component index of `Dev::LeadZero` meaning "the numeric identifiers of the tag"
pub const TAG_COMP: usize = 99;

pub const GARBAGE: [&str; 8] = ["foo", "~1.y", "1.2.3.4", "1.2beta4", "x|y", "|", "-", ">="];

fn render_partial(p: &Partial, alt: usize, simple: usize, side: usize, devs: &[Dev]) -> String {
    let mut s = String::new();
    if devs.iter().any(|d| matches!(d, Dev::VPrefix { alt: a, simple: si, side: sd } if *a == alt && *si == simple && *sd == side)) {
        s.push('v');
    }
    if devs.iter().any(|d| matches!(d, Dev::VSpace { alt: a, simple: si, side: sd } if *a == alt && *si == simple && *sd == side)) {
        s.push_str("v ");
    }
    for (i, c) in p.c.iter().enumerate() {
        if i > 0 {
            s.push('.');
        }
        match c {
            Cmp::X => {
                let mut ch = "x";
                for d in devs {
                    if let Dev::Wild { alt: a, simple: si, side: sd, comp, ch: c2 } = d {
                        if *a == alt && *si == simple && *sd == side && *comp == i {
                            ch = c2;
                        }
                    }
                }
                s.push_str(ch);
            }
            Cmp::N(n) => {
                if devs.iter().any(|d| matches!(d, Dev::LeadZero { alt: a, simple: si, side: sd, comp } if *a == alt && *si == simple && *sd == side && *comp == i)) {
                    s.push('0');
                }
                s.push_str(&n.to_string());
            }
        }
    }
    if !p.pre.is_empty() {
        let nohyphen = devs.iter().any(|d| matches!(d, Dev::NoTagHyphen { alt: a, simple: si, side: sd } if *a == alt && *si == simple && *sd == side));
        if !nohyphen {
            s.push('-');
        }
        // LeadZero with comp == TAG_COMP: every all-digit identifier of the tag is written with a
        // leading zero (`-01`; npm in loose mode and the crate read it as the number)
        if devs.iter().any(|d| matches!(d, Dev::LeadZero { alt: a, simple: si, side: sd, comp } if *a == alt && *si == simple && *sd == side && *comp == TAG_COMP)) {
            let parts: Vec<String> = p.pre.split('.').map(|id| if !id.is_empty() && id.bytes().all(|b| b.is_ascii_digit()) { format!("0{}", id) } else { id.to_string() }).collect();
            s.push_str(&parts.join("."));
        } else {
            s.push_str(&p.pre);
        }
    }
    if !p.build.is_empty() {
        s.push('+');
        s.push_str(&p.build);
    }
    s
}

pub fn render(prog: &Prog, devs: &[Dev]) -> String {
    let mut s = String::new();
    if devs.contains(&Dev::Lead) {
        s.push(' ');
    }
    if devs.contains(&Dev::TabLead) {
        s.push('\t');
    }
    for (ai, alt) in prog.iter().enumerate() {
        if ai > 0 {
            let mut sep = " || ";
            for d in devs {
                if let Dev::Or { idx, s: t } = d {
                    if *idx == ai {
                        sep = t;
                    }
                }
            }
            s.push_str(sep);
        }
        match alt {
            Alt::Hyphen(a, b) => {
                s.push_str(&render_partial(a, ai, 0, 0, devs));
                if devs.iter().any(|d| matches!(d, Dev::HyphenSep { alt } if *alt == ai)) {
                    s.push_str("  -  ");
                } else {
                    s.push_str(" - ");
                }
                s.push_str(&render_partial(b, ai, 0, 1, devs));
            }
            Alt::Set(simples) => {
                // tokens with garbage insertions
                let mut toks: Vec<String> = vec![];
                let mut seps: Vec<&str> = vec![]; // separator before token k (k>=1)
                for pos in 0..=simples.len() {
                    for d in devs {
                        if let Dev::Garbage { alt, pos: p, tok } = d {
                            if *alt == ai && *p == pos {
                                toks.push(tok.to_string());
                            }
                        }
                    }
                    if pos < simples.len() {
                        let t = match &simples[pos] {
                            Simple::Garbage(g) => g.to_string(),
                            Simple::P(op, p) => {
                                let mut t = String::from(op.text());
                                for d in devs {
                                    if let Dev::OpGap { alt, simple, gap } = d {
                                        if *alt == ai && *simple == pos {
                                            t.push_str(gap);
                                        }
                                    }
                                }
                                t.push_str(&render_partial(p, ai, pos, 0, devs));
                                t
                            }
                        };
                        toks.push(t);
                    }
                }
                let _ = &mut seps;
                for (k, t) in toks.iter().enumerate() {
                    if k > 0 {
                        let mut sep = " ";
                        for d in devs {
                            if let Dev::Sep { alt, pos, s: t } = d {
                                if *alt == ai && *pos == k {
                                    sep = t;
                                }
                            }
                        }
                        s.push_str(sep);
                    }
                    s.push_str(t);
                }
            }
        }
    }
    if devs.contains(&Dev::Trail) {
        s.push(' ');
    }
    if devs.contains(&Dev::TabTrail) {
        s.push('\t');
    }
    s
}

/// every single deviation applicable to `prog`
pub fn sites(prog: &Prog) -> Vec<Dev> {
    let mut out = vec![Dev::Lead, Dev::Trail, Dev::TabLead, Dev::TabTrail];
    let partial_sites = |p: &Partial, alt: usize, simple: usize, side: usize, out: &mut Vec<Dev>| {
        out.push(Dev::VPrefix { alt, simple, side });
        // `v ` (v, blank) is accepted by the crate but not by node-semver inside a comparator
        // (node splits at the blank): outside "npm's documented desugaring", not generated
        for (i, c) in p.c.iter().enumerate() {
            match c {
                Cmp::N(_) => out.push(Dev::LeadZero { alt, simple, side, comp: i }),
                Cmp::X => {
                    out.push(Dev::Wild { alt, simple, side, comp: i, ch: "X" });
                    out.push(Dev::Wild { alt, simple, side, comp: i, ch: "*" });
                }
            }
        }
        if p.pre.chars().next().map(|c| c.is_ascii_alphabetic()).unwrap_or(false) {
            out.push(Dev::NoTagHyphen { alt, simple, side });
        }
        if p.pre.split('.').any(|id| !id.is_empty() && id.bytes().all(|b| b.is_ascii_digit())) {
            out.push(Dev::LeadZero { alt, simple, side, comp: TAG_COMP });
        }
    };
    for (ai, alt) in prog.iter().enumerate() {
        if ai > 0 {
            for s in ["||", " ||", "|| ", "  ||  ", "\t||\t"] {
                out.push(Dev::Or { idx: ai, s });
            }
        }
        match alt {
            Alt::Hyphen(a, b) => {
                partial_sites(a, ai, 0, 0, &mut out);
                partial_sites(b, ai, 0, 1, &mut out);
                out.push(Dev::HyphenSep { alt: ai });
            }
            Alt::Set(simples) => {
                let mut ntok = 0;
                for (si, s) in simples.iter().enumerate() {
                    if let Simple::P(op, p) = s {
                        if *op != Op::Bare {
                            for gap in [" ", "  ", "\t"] {
                                out.push(Dev::OpGap { alt: ai, simple: si, gap });
                            }
                        }
                        partial_sites(p, ai, si, 0, &mut out);
                    }
                    ntok += 1;
                }
                for pos in 0..=simples.len() {
                    for tok in GARBAGE {
                        // a dangling operator before a comparator would be read as "blank after operator"
                        if tok == ">=" && pos < simples.len() {
                            continue;
                        }
                        // a stray `-` between two comparators would spell a hyphen range
                        if tok == "-" && pos > 0 && pos < simples.len() {
                            continue;
                        }
                        out.push(Dev::Garbage { alt: ai, pos, tok });
                    }
                }
                for k in 1..ntok {
                    out.push(Dev::Sep { alt: ai, pos: k, s: "  " });
                    out.push(Dev::Sep { alt: ai, pos: k, s: "\t" });
                    out.push(Dev::Sep { alt: ai, pos: k, s: " \t " });
                }
            }
        }
    }
    out
}

// -------------------------------------------------------------- alphabets ---

pub fn partials(comps: &[Cmp], quals: &[(&str, &str)]) -> Vec<Partial> {
    let mut out = vec![];
    for a in comps {
        out.push(Partial { c: vec![*a], pre: String::new(), build: String::new() });
    }
    for a in comps {
        for b in comps {
            out.push(Partial { c: vec![*a, *b], pre: String::new(), build: String::new() });
        }
    }
    for a in comps {
        for b in comps {
            for c in comps {
                // the grammar allows a qualifier after any third component, wildcard or not
                // (`1.2.x-beta`): npm ignores it on a wildcard partial
                for (pre, build) in quals {
                    {
                        out.push(Partial { c: vec![*a, *b, *c], pre: pre.to_string(), build: build.to_string() });
                    }
                }
            }
        }
    }
    out
}

pub fn prog_single(op: Op, p: &Partial) -> Prog {
    vec![Alt::Set(vec![Simple::P(op, p.clone())])]
}
