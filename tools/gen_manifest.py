#!/usr/bin/env python3
"""Regenerates /verif/MANIFEST.json (kept in tools/ so that the per-property texts live in one place)."""
import json, subprocess
hook_commit = subprocess.run(['git','-C','/repo','log','--format=%H','--grep=^verif-hooks:'],capture_output=True,text=True).stdout.split()
TRUST = ("Trusted base: rustc/std/rayon/serde_json as installed; harness built in release mode with debug-assertions, overflow-checks and panic=unwind; "
         "the reference model harness/src/refmodel.rs (SemVer section 11 order, cuts, comparators; its order is checked against the crate and frozen node-semver data in C04, "
         "its desugaring against 47 280 frozen node-semver 7.6.2 programs on every C01-C03 run); the read-only hook Range::verif_bounds (field-by-field copy). ")
T1 = "T1/T2 (DESIGN 2.2, hand proofs) carry the finite critical-point universe to 'every version'; hypothesis H for satisfies-level claims; numeric small-scope assumption ({0,1,2,3} + MAX_SAFE_INTEGER family) for components. "
P = {}
def add(pid, engine, cat, technique, text, note, ref):
    P[pid] = dict(property_id=pid, quick_cmd=f"./check {pid} --tier quick", thorough_cmd=f"./check {pid} --tier thorough",
                  evidence_file=f"evidence/{pid}.json", replay_cmd_template=f"./check {pid} --replay {{path}}", engine=engine,
                  level_claimed=dict(category=cat, text=text, design_ref=ref), level_note=note, technique=technique)
add("C01","A","exploration","bounded exhaustive enumeration of range programs (ASTs x spelling deviations) run on the real parser in lock-step with a reference desugaring",
    "Every range program of the bounded grammar (all operators x all partials over {x,0,1,(2)} with tags/build, all hyphen pairs, all ordered pairs `a b` over the reduced comparator set, all `a || b` over the alternative set, all triples over the core in thorough) is rendered with 0/1/(2) spelling deviations at every applicable site, parsed by the real Range::parse and compared with npm's documented desugaring on every version of a universe that contains the exact critical points of every comparator. Exhaustive within those bounds; the right level because the defects of this property are coincidences of tiny inputs (wildcard position, zero vs non-zero, equal bounds) that enumeration hits and sampling does not.",
    TRUST+T1+"Empty alternatives (`a ||`) and garbage next to a hyphen range are outside the explored grammar (npm's own treatment is a regex artefact). Cells where node's `>=0.0.0`-is-any shortcut differs from the documented reading are don't-care.", "DESIGN 2.3, 3/C01")
add("C02","A","exploration","bounded exhaustive enumeration of ordered pairs of comparator lists / alternatives with a metamorphic oracle on the real parser",
    "All ordered pairs (a,b) of comparator lists (every reduced comparator plus two-comparator lists) are parsed alone, as `a b` and as `a || b`; all ordered pairs of alternatives (incl. hyphen and multi-alternative texts) as `a || b`. Union / intersection / prerelease-within-both / empty-conjunction clauses are evaluated on every universe version; both orders are enumerated so order-independence is implied.",
    TRUST+T1+"`within` is read from the crate's raw bounds through the hook, so the oracle is relative to the crate's own parse of a and b.", "DESIGN 3/C02")
add("C03","A+C","exploration","bounded exhaustive enumeration of range programs and of reached algebra states against a bounds-relative prerelease-gate oracle",
    "For every explored program the gate is checked relative to the crate's own bounds: a prerelease is admitted iff it lies within the bounds the crate gives some alternative and that alternative has a written comparator tagged on the same triple; releases: satisfied iff within; build metadata on the version (+b, +0.b; both call directions) and on the range side never changes an answer. Additionally real satisfies() is compared with the bounds-based gate on every distinct state of the Engine C search (depth 2).",
    TRUST+T1+"max_satisfying as resolver-style observation point is covered by C14's enumeration (prerelease-bearing lists).", "DESIGN 3/C03")
add("C04","D","exploration","exhaustive pairs, triples and short lists over a finite version universe against an independent SemVer section-11 comparator",
    "All ordered pairs and all triples of a universe realising every pair of identifier-list shapes (numeric vs alphanumeric, numeric by value, case, hyphens, prefixes, u64::MAX, limit triples, build variants) and all lists up to length 3/4 over a 12-version sub-universe: cmp == reference, partial_cmp/operators/==/Hash consistent, reflexive/antisymmetric/transitive/total, sort and min/max consistent. The reference comparator is itself compared with a frozen node-semver compare() table for exactly this universe on every run.",
    TRUST+"Identifier lists longer than 3 and identifiers outside the 12-symbol alphabet are not explored.", "DESIGN 3/C04")
add("C05","B","exploration","depth-bounded exhaustive walk of the parser's input tree plus complete edit neighbourhoods and limit families, against a hand-written recogniser",
    "Every string over an 11-symbol token-class alphabet (incl. a multi-byte character whose low byte is an ASCII letter) up to length 6/8, every single edit of 24 canonical seeds over 21 symbols, every pair of edits of the shortest seeds, and the length/integer limit families are given to Version::parse, str::parse and serde; acceptance implies membership in the whole-string version language and field-wise equality with the denotation; every strict canonical string within the limits must be accepted.",
    TRUST+"The quantifier's 'random strings' are replaced by complete enumeration below the bound plus families; strings longer than 8 symbols are covered only by the edit and limit families.", "DESIGN 2.4, 3/C05")
add("C06","B+C","exploration","depth-bounded exhaustive walk of both parsers' input trees and all pairs of reached values under a panic/hang monitor (overflow checks + debug assertions on)",
    "Every string of both input trees (to length 6/8 for versions, 5/7 for ranges) and the edit / limit / multi-line / multi-byte / 64 KiB families are parsed by both parsers under catch_unwind; every accessor and diagnostic rendering of every error and every unary operation of every value are run; every binary operation runs on every ordered pair of distinct reached ranges and versions, and on every transition of the Engine C search to depth 2; a watchdog turns a non-returning case into a violation.",
    TRUST+"The clause 'time roughly linear in the input length' cannot be decided by enumeration: it is covered by a labelled measurement (alarm only if T(64KiB) > 512 x T(1KiB)); binary operations on ranges with more than 64 alternatives are excluded from the pair sweep because they are n x m by construction.", "DESIGN 3/C06, 5")
for pid,what in [("C07","intersect"),("C08","difference"),("C09","allows_any"),("C10","allows_all")]:
    add(pid,"C","model_checking","explicit-state breadth-first search of the range algebra on the real code (states = Range values keyed by raw bounds, transitions = intersect/difference on every ordered pair of reached states), invariants as bitset arithmetic over an exact critical-point universe",
        f"Explicit-state search: leaf states realise every bound-kind combination at equal / adjacent / distant versions (single and two-alternative); every ordered pair of leaves is a depth-1 transition whose results become states; every ordered pair of the resulting states is a depth-2 transition. The {what} clauses of the property are evaluated on every transition as identities between membership bitsets over a universe that contains b and succ(b) for every bound version (exact for all versions by T1), plus the satisfies-level clauses with real satisfies() at depth 1 and the bounds-based gate at depth 2. Exhaustive to the stated depth.",
        TRUST+T1+"Leaves use the bound versions {1.0.0, 2.0.0, 1.0.0-a} (quick) / + {1.0.1, 1.0.0-a.0, 2.0.0-0} (thorough). For C09 the answer on pairs that overlap as cuts but contain no version (`>1.0.0` vs `<1.0.1-0`) is left open, as the property does.", "DESIGN 2.5, 3/"+pid)
add("C11","C+A","model_checking","explicit-state search of the range algebra plus enumeration of parsed range programs; min_version compared with the least satisfying element of an exact critical-point universe",
    "min_version() of every distinct state of the Engine C search (depth 2) and of every parsed Engine A program (levels 1-2) is compared with the least universe version that the real satisfies() admits; Some(m) must satisfy and have no lower satisfying version, None requires that no universe version satisfies. By T2 the least satisfying version of an interval set is a critical point contained in the universe.",
    TRUST+T1+"'satisfies' is the crate's own (checked by C01/C03).", "DESIGN 3/C11")
add("C12","B+D","exploration","exhaustive walk of the accepted strings of the version input tree plus all canonical field combinations built directly, against field-wise round-trip identities",
    "Every accepted string of the Sigma_v walk, of the edit neighbourhoods and limit families, and every version built directly from {0,1,MAX}^3 x tag lists x build lists over a 12-identifier alphabet (length <= 2), plus built values printing at 255/256 bytes: print -> parse gives the same five fields, printing is a fixed point, serde JSON is exactly the printed string and deserialises to the same fields.",
    TRUST+"Identifier lists longer than 2 only via the parsed strings.", "DESIGN 3/C12")
add("C13","A+B+C","model_checking","explicit-state search of the range algebra + enumeration of parsed programs and accepted range strings; round trip checked as bitset identity on raw bounds and real satisfies",
    "For every distinct Engine C state (depth 2), every parsed Engine A program (levels 1-2, value-preserving spellings) and every distinct value parsed from the Sigma_r input tree: to_string re-parses, to the same bounds membership (hook, exact by T1) and the same satisfies answers on the universe; parsed ranges compare ==; printing is stable; serde round-trips the same way.",
    TRUST+T1+"Range::any() and states containing the (unbounded, unbounded) interval are outside the property's quantifier (not obtainable from parse) and skipped.", "DESIGN 3/C13")
add("C14","D","exploration","exhaustive lists up to length 3/4 over a 14-version pool x 40 ranges against the definition of max/min",
    "Every list (all orders, duplicates, versions equal up to build, prereleases above the highest satisfying release) x 40 ranges: result is None iff nothing satisfies, else pointer-identical to a slice element that satisfies and is extreme in reference order among the satisfying ones.",
    TRUST, "DESIGN 3/C14")
add("C15","C","model_checking","explicit-state search of the range algebra: expression trees of depth <= 2 over all reached states plus all leaf triples, identities as bitset arithmetic over an exact universe",
    "On every ordered pair of reached states (depth 2): A-A empty, (A-B)&B empty, A = (A&B) disjoint-union (A-B), A-(A-B) = A&B, commutativity, idempotence; on every triple of leaves: (A&B)&C = A&(B&C) = pointwise meet; every intermediate result is a state and re-parses (C13 clause). All compositions are executed on the real code.",
    TRUST+T1, "DESIGN 3/C15")
add("C16","D","exploration","exhaustive ordered pairs of a 486-version universe against an independent statement of diff and a frozen node-semver table",
    "All 236 196 ordered pairs: value equals the release-type rules written from the statement and the frozen node-semver 7.6.2 answer; symmetric; None iff precedence-equal; build-insensitive; Display is the node name.",
    TRUST+"Components limited to {0,1,2}: the rules only test zero / non-zero / equal.", "DESIGN 3/C16")
add("C17","B","exploration","depth-bounded exhaustive walk of the rejected strings of both input trees plus multi-line / multi-byte / limit families against independently computed offsets, locations and kind rules",
    "Every rejected string of both walks and of the families: input() is the argument, offset() within range and on a character boundary, span consistent, location() equals the independently computed 0-based line/column, all Diagnostic parts present and the label span readable, narratable rendering succeeds (every string up to n-2 symbols and every distinct error shape beyond), kind rules for over-long input, components in (MAX, 2^64), components >= 2^64 and comparator-free ranges.",
    TRUST+"Column is accepted in bytes or in characters.", "DESIGN 3/C17")
add("C18","D","exploration","exhaustive tuples for u8 / i8 and boundary products for the wider integer types against parsing of the dotted text",
    "u8: all 256^3 triples; i8: all 128^3 non-negative triples (all 128^4 quadruples in thorough); quadruple boundary products and full sweeps per coordinate; boundary products incl. MAX_SAFE_INTEGER for the eight wider types: fields, printed text, parse of the dotted string and cross-type agreement.",
    TRUST+"Negative inputs are outside the property (debug assertion).", "DESIGN 3/C18")
manifest = {
 "version": 1,
 "setup_cmd": "./check setup",
 "hooks": {"guard": "cargo feature `verif-hooks` of nodejs-semver (off by default)",
           "enable": "the harness depends on nodejs-semver by path (/repo) with features [\"serde\", \"verif-hooks\"]; every check command runs `cargo build --release --offline` first, so it always rebuilds from /repo's working tree",
           "baseline_off_cmd": "cd /repo && cargo test --workspace --no-fail-fast --offline",
           "source_commits": hook_commit, "add_only": True},
 "engines": [
  {"name":"A","path":"harness/src/engine_a.rs, harness/src/ast.rs","serves_properties":["C01","C02","C03","C11","C13"],"kind_free_text":"grammar-bounded exhaustive exploration of range programs (ASTs + spelling deviations) against a reference desugaring validated on frozen node-semver answers"},
  {"name":"B","path":"harness/src/engine_b.rs, harness/src/engine_b6.rs","serves_properties":["C05","C06","C12","C13","C17"],"kind_free_text":"depth-bounded exhaustive walk of the input trees of both parsers, edit neighbourhoods, limit families, panic/hang monitor"},
  {"name":"C","path":"harness/src/engine_c.rs","serves_properties":["C03","C06","C07","C08","C09","C10","C11","C13","C15"],"kind_free_text":"explicit-state breadth-first model checking of the range algebra on the real code with bitset invariants over an exact critical-point universe"},
  {"name":"D","path":"harness/src/engine_d.rs","serves_properties":["C04","C14","C16","C18"],"kind_free_text":"exhaustive tuples over explicitly listed finite universes"}],
 "checks": [P[k] for k in sorted(P)],
 "notes": "Exit codes of every command: 0 held / 1 violation (VIOLATION property=<id> replay=<path>) / 2 machinery failure. Known findings live in known_findings.json; seeded property-breaking changes in seeded/. See DESIGN.md.",
 "not_applicable": []
}
json.dump(manifest, open('/verif/MANIFEST.json','w'), indent=1)
print("checks:", len(manifest['checks']), "hook commits:", hook_commit)
