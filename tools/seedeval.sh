#!/bin/bash
# tools/seedeval.sh <dir-with-modified-nodejs-semver> [props...]
# Runs the quick checks against a scratch copy of the crate (a worktree with a seeded change)
# WITHOUT touching /repo or /verif/evidence: copies the harness sources to a scratch dir,
# points the path dependency at <dir>, builds into a scratch target dir and writes evidence /
# replays to a scratch out dir. Prints one line per property: HELD / VIOLATION / MACHINERY.
set -u
SRC="$1"; shift
PROPS="${*:-C01 C02 C03 C04 C05 C06 C07 C08 C09 C10 C11 C12 C13 C14 C15 C16 C17 C18}"
TAG=$(echo "$SRC" | tr '/' '_')
W=/tmp/seedeval/$TAG
mkdir -p "$W/harness" "$W/out"
SNAP="${VERIF_SNAPSHOT:-/verif}"
rsync -a --delete --exclude target "$SNAP/harness/" "$W/harness/"
sed -i "s#path = \"/repo\"#path = \"$SRC\"#" "$W/harness/Cargo.toml"
export CARGO_TARGET_DIR=/tmp/seedeval/target CARGO_NET_OFFLINE=true SEMVER_MC_OUT="$W/out" SEMVER_MC_HOME="$SNAP"
TIER="${SEED_TIER:-quick}"
cd "$W/harness" || exit 2
# the target dir is shared between invocations: build and take a private copy of the binary under a lock
if ! flock /tmp/seedeval/build.lock sh -c "cargo build --release --offline >'$W/build.log' 2>&1 && cp /tmp/seedeval/target/release/semver-mc '$W/semver-mc'"; then echo "BUILD FAILED (see $W/build.log)"; tail -5 "$W/build.log"; exit 2; fi
for p in $PROPS; do
  timeout 1200 "$W/semver-mc" "$p" --tier "$TIER" >"$W/out/$p.log" 2>&1; rc=$?
  case $rc in
    0) echo "$p HELD" ;;
    1) echo "$p VIOLATION  $(grep -m1 'key:' "$W/out/$p.log" | cut -c1-160)" ;;
    *) echo "$p MACHINERY rc=$rc $(tail -1 "$W/out/$p.log" | cut -c1-160)" ;;
  esac
done
