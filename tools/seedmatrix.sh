#!/bin/bash
# tools/seedmatrix.sh [seed-id ...]   (default: every directory under /verif/seeded)
# For each seeded change: fresh scratch worktree of /repo HEAD + patch.diff, all quick checks via
# seedeval.sh, result written to /verif/seeded/<id>/detected.txt. Removes the worktree afterwards.
set -u
cd /verif/seeded || exit 2
IDS="${*:-$(ls -d */ | tr -d /)}"
for id in $IDS; do
  wt=/tmp/seedwt/$id
  rm -rf "$wt"; git -C /repo worktree prune
  git -C /repo worktree add --detach "$wt" HEAD -q || continue
  if ! git -C "$wt" apply /verif/seeded/$id/patch.diff; then echo "$id: patch does not apply"; git -C /repo worktree remove --force "$wt"; continue; fi
  /verif/tools/seedeval.sh "$wt" > /verif/seeded/$id/detected.txt 2>&1
  echo "$id: $(grep -c VIOLATION /verif/seeded/$id/detected.txt) checks alarm: $(grep VIOLATION /verif/seeded/$id/detected.txt | cut -d' ' -f1 | tr '\n' ' ')"
  git -C /repo worktree remove --force "$wt"
  rm -rf /tmp/seedeval/_tmp_seedwt_$id
done
