#!/bin/bash
# tools/seedmatrix.sh [seed-id ...]   (default: every directory under /verif/seeded)
# For each seeded change: fresh scratch worktree of /repo HEAD + patch.diff, all quick checks via
# seedeval.sh, result written to /verif/seeded/<id>/detected.txt. Removes the worktree afterwards.
set -u
# evaluate against a frozen snapshot of the committed /verif, so that later edits do not interfere
# (several instances may share one snapshot: set VERIF_SNAPSHOT to an existing one)
if [ -n "${VERIF_SNAPSHOT:-}" ]; then SNAPDIR="$VERIF_SNAPSHOT"; OWN_SNAP=0; else
  SNAPDIR=/tmp/verifsnap; OWN_SNAP=1
  rm -rf "$SNAPDIR"; git -C /verif worktree prune
  git -C /verif worktree add --detach "$SNAPDIR" HEAD -q || exit 2
  export VERIF_SNAPSHOT="$SNAPDIR"
fi
echo "snapshot of /verif at $(git -C "$SNAPDIR" rev-parse --short HEAD)"
cd /verif/seeded || exit 2
IDS="${*:-$(ls -d */ | tr -d /)}"
for id in $IDS; do
  wt=/tmp/seedwt/$id
  rm -rf "$wt"; git -C /repo worktree prune
  git -C /repo worktree add --detach "$wt" HEAD -q || continue
  base=HEAD
  if ! git -C "$wt" apply /verif/seeded/$id/patch.diff 2>/dev/null; then
    # the patch was written against an earlier /repo commit (before a later fix: commit touched the
    # same lines): evaluate it on that commit instead
    git -C /repo worktree remove --force "$wt"
    base=e79d663
    git -C /repo worktree add --detach "$wt" $base -q || continue
    if ! git -C "$wt" apply /verif/seeded/$id/patch.diff; then echo "$id: patch does not apply"; git -C /repo worktree remove --force "$wt"; continue; fi
  fi
  echo "$base" > /verif/seeded/$id/base.txt
  /verif/tools/seedeval.sh "$wt" > /verif/seeded/$id/detected.txt 2>&1
  echo "$id: $(grep -c VIOLATION /verif/seeded/$id/detected.txt) checks alarm: $(grep VIOLATION /verif/seeded/$id/detected.txt | cut -d' ' -f1 | tr '\n' ' ')"
  git -C /repo worktree remove --force "$wt"
  rm -rf /tmp/seedeval/_tmp_seedwt_$id
done
[ "$OWN_SNAP" = 1 ] && git -C /verif worktree remove --force "$SNAPDIR"
