#!/bin/bash
# tools/seedconfirm.sh <worktree> <seed-id>
# Confirms a sub-agent's seeded change: existing suite passes with it, the demo fails with it and
# passes without it. On success stores patch.diff + demo under /verif/seeded/<seed-id>/.
set -u
WT="$1"; ID="$2"
cd "$WT" || exit 2
export CARGO_NET_OFFLINE=true
git diff -- src/ Cargo.toml > /tmp/seedeval-$ID.diff
[ -s /tmp/seedeval-$ID.diff ] || { echo "no source change"; exit 2; }
suite=$(cargo test --offline --lib 2>&1 | grep "^test result:" | head -1)
doc=$(cargo test --offline --doc 2>&1 | grep "^test result:" | head -1)
with=$(cargo test --offline --test seeded_demo 2>&1 | grep "^test result:" | head -1)
git checkout -q -- src/ Cargo.toml
without=$(cargo test --offline --test seeded_demo 2>&1 | grep "^test result:" | head -1)
git apply /tmp/seedeval-$ID.diff
echo "suite(with change): $suite"; echo "doc(with change): $doc"; echo "demo with change: $with"; echo "demo without:     $without"
case "$suite" in *"133 passed; 0 failed"*) ;; *) echo "REJECT: existing suite changed"; exit 1;; esac
case "$with" in *FAILED*) ;; *) echo "REJECT: demo does not fail with the change"; exit 1;; esac
case "$without" in *"ok."*) ;; *) echo "REJECT: demo does not pass without the change"; exit 1;; esac
mkdir -p /verif/seeded/$ID
cp /tmp/seedeval-$ID.diff /verif/seeded/$ID/patch.diff
cp tests/seeded_demo.rs /verif/seeded/$ID/seeded_demo.rs
cargo clean -q 2>/dev/null; echo "CONFIRMED -> /verif/seeded/$ID"
