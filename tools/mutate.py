#!/usr/bin/env python3
"""tools/mutate.py — a one-token mutation campaign against the quick checks.

  mutate.py list                      print the mutants (json lines) of /repo's non-test source
  mutate.py suite  <workers>          phase 1: run the repository's own suite on every mutant
                                      (scratch copies under /tmp/mut), write /tmp/mut/phase1.jsonl
  mutate.py checks <workers>          phase 2: run all 18 quick checks (tools/seedeval.sh) on every
                                      mutant that survived the suite, write /tmp/mut/phase2.jsonl
  mutate.py report                    summarise into /verif/seeded/MUTATION.md

Nothing is written to /repo; scratch copies live under /tmp/mut and are removed at the end of
each phase. This is an *evaluation* of the checks (which realistic slips that the repository's
tests do not notice do they notice?), not a check itself.
"""
import json, os, re, shutil, subprocess, sys, hashlib
from concurrent.futures import ThreadPoolExecutor

REPO = '/repo'
SCR = '/tmp/mut'
# non-test regions (1-based inclusive line ranges), found from the `#[cfg(test)]` markers
def regions():
    out = {}
    for f in ('src/lib.rs', 'src/range.rs'):
        lines = open(f'{REPO}/{f}').read().split('\n')
        end = len(lines)
        for i, l in enumerate(lines):
            if l.startswith('#[cfg(test)]') or l.startswith('macro_rules! create_tests_for') or (l.startswith('#[cfg(feature = "serde")]') and i + 1 < len(lines) and lines[i + 1].startswith('#[cfg(test)]')):
                end = i
                break
        out[f] = (lines, end)
    return out

RULES = [
    # (regex, replacements) applied to code part of a line (comments stripped)
    (r' <= ', [' < ']), (r' < ', [' <= ']), (r' >= ', [' > ']), (r' > ', [' >= ']),
    (r' == ', [' != ']), (r' != ', [' == ']),
    (r' && ', [' || ']), (r' \|\| ', [' && ']),
    (r' \+ 1\b', [' + 2', '']), (r' - 1\b', [' - 2', '']),
    (r'\b0\b', ['1']), (r'\b1\b', ['0', '2']), (r'\b2\b', ['1', '3']),
    (r'\btrue\b', ['false']), (r'\bfalse\b', ['true']),
    (r'\bLess\b', ['Greater', 'Equal']), (r'\bGreater\b', ['Less', 'Equal']), (r'Ordering::Equal\b', ['Ordering::Less']),
    (r'\.min\(\)', ['.max()']), (r'\.max\(\)', ['.min()']),
    (r'\.min\(', ['.max(']), (r'\.max\(', ['.min(']),
    (r'\bIncluding\b', ['Excluding']), (r'\bExcluding\b', ['Including']),
    (r'\bBound::Lower\b', ['Bound::Upper']), (r'\bBound::Upper\b', ['Bound::Lower']),
    (r'\.any\(', ['.all(']), (r'\.all\(', ['.any(']),
    (r'\.is_empty\(\)', ['.is_empty() == false']),
    (r'\.is_some\(\)', ['.is_none()']), (r'\.is_none\(\)', ['.is_some()']),
    (r'\bGreaterThanEquals\b', ['GreaterThan']), (r'\bGreaterThan\b(?!Equals)', ['GreaterThanEquals']),
    (r'\bLessThanEquals\b', ['LessThan']), (r'\bLessThan\b(?!Equals)', ['LessThanEquals']),
    (r'\.rev\(\)', ['']), (r'\.flatten\(\)', ['']),
    (r'\bmajor\b', ['minor']), (r'\bminor\b', ['patch', 'major']), (r'\bpatch\b', ['minor']),
    (r'\.first\(\)', ['.last()']), (r'\.last\(\)', ['.first()']),
    (r'\bself\b(?=[^.(:]*\bother\b)', None),  # placeholder: operand swap handled below
    (r'\bMAX_SAFE_INTEGER\b', ['(MAX_SAFE_INTEGER - 1)', '(MAX_SAFE_INTEGER + 1)']),
    (r'\bMAX_LENGTH\b', ['(MAX_LENGTH - 1)', '(MAX_LENGTH + 1)']),
    (r'\bspace0\b', ['space1']), (r'\bspace1\b', ['space0']),
    (r'\bopt\(', None),
    (r'\.unwrap_or\(0\)', ['.unwrap_or(1)']),
    (r'\bupper\b', ['lower']), (r'\blower\b', ['upper']),
    (r'\bpre_release\b', ['build']), (r'\bbuild\b', ['pre_release']),
    (r'!(?=[a-z_(])', ['']),
]

def code_part(line):
    # strip a trailing // comment (no string-literal awareness needed for this code base except "//" never occurs in strings)
    i = line.find('//')
    return line if i < 0 else line[:i]

def mutants():
    out = []
    for f, (lines, end) in regions().items():
        in_hook = False
        in_doc = False
        for ln in range(end):
            line = lines[ln]
            st = line.strip()
            if st.startswith('/**'):
                in_doc = True
            if in_doc:
                if '*/' in st:
                    in_doc = False
                continue
            if 'verif-hooks' in line:
                in_hook = True
            if in_hook:
                # hook items end at a line that is just `}` at column 0 or 4 after the attribute
                if line.rstrip() in ('}', '    }'):
                    in_hook = False
                continue
            if st.startswith('//') or st.startswith('#[') or st.startswith('use ') or st.startswith('*') or not st:
                continue
            code = code_part(line)
            for rx, reps in RULES:
                if reps is None:
                    continue
                for m in re.finditer(rx, code):
                    for r in reps:
                        new = line[:m.start()] + r + line[m.end():]
                        if new != line:
                            out.append({'file': f, 'line': ln + 1, 'col': m.start(), 'old': m.group(0), 'new': r, 'text': new})
    out.extend(line_mutants())
    # stable ids
    for m in out:
        m['id'] = hashlib.sha1(f"{m['file']}:{m['line']}:{m['col']}:{m['old']}:{m['new']}".encode()).hexdigest()[:10]
    return out

def eligible_lines():
    """(file, 0-based line number, line) of every non-test, non-hook, non-comment code line"""
    for f, (lines, end) in regions().items():
        in_hook = False
        in_doc = False
        for ln in range(end):
            line = lines[ln]
            st = line.strip()
            if st.startswith('/**') or st.startswith('/*'):
                in_doc = True
            if in_doc:
                if '*/' in st:
                    in_doc = False
                continue
            if 'verif-hooks' in line:
                in_hook = True
            if in_hook:
                if line.rstrip() in ('}', '    }'):
                    in_hook = False
                continue
            if st.startswith('//') or st.startswith('#[') or st.startswith('use ') or st.startswith('*') or not st:
                continue
            yield f, ln, line

def line_mutants():
    """second batch: whole-line and structural slips"""
    out = []
    def add(f, ln, old, new, text):
        out.append({'file': f, 'line': ln + 1, 'col': 0, 'old': old, 'new': new, 'text': text})
    for f, ln, line in eligible_lines():
        st = code_part(line).strip()
        ind = line[:len(line) - len(line.lstrip())]
        # a dropped conjunct / disjunct / pattern alternative / adaptor / statement
        if st.startswith('&& ') or st.startswith('|| '):
            add(f, ln, 'line:' + st[:40], '(conjunct removed)', '')
        elif st.startswith('| ') and '=>' not in st:
            add(f, ln, 'line:' + st[:40], '(pattern alternative removed)', '')
        elif st.startswith('| ') and '=>' in st:
            # last alternative of an arm: drop the alternative, keep the arrow
            add(f, ln, 'line:' + st[:40], '(pattern alternative removed)', None)
        elif st.startswith('.') and st.endswith(')') and not st.startswith('.context('):
            add(f, ln, 'line:' + st[:40], '(adaptor removed)', '')
        elif st.endswith(';') and not re.match(r'(let |use |return|const |pub |type |static |break|continue)', st) and '=>' not in st and not st.startswith('}'):
            add(f, ln, 'line:' + st[:40], '(statement removed)', '')
        m = re.match(r'^(\s*(?:\} else )?if )(?!let )(.*)( \{)$', code_part(line).rstrip())
        if m:
            for c in ('true', 'false'):
                add(f, ln, 'if ' + m.group(2)[:40], 'if ' + c, m.group(1) + c + m.group(3))
        for mm in re.finditer(r'(\b[\w.]+(?:\(\))?) (<=|<|>=|>) ([\w.]+(?:\(\))?)', code_part(line)):
            a, op, b = mm.groups()
            if a != b and not a[0].isdigit():
                new = line[:mm.start()] + f'{b} {op} {a}' + line[mm.end():]
                add(f, ln, mm.group(0), f'{b} {op} {a}', new)
        for mm in re.finditer(r'\+= 1\b', code_part(line)):
            for r in ('+= 0', '+= 2'):
                add(f, ln, '+= 1', r, line[:mm.start()] + r + line[mm.end():])
        for mm in re.finditer(r'(?<![\w.])(\d{2,})(?![\w.])', code_part(line)):
            n = int(mm.group(1))
            for r in (n - 1, n + 1):
                add(f, ln, mm.group(1), str(r), line[:mm.start()] + str(r) + line[mm.end():])
    # the "last alternative" deletions need the arrow kept: rewrite `| PAT => X` as `=> X` is not
    # valid Rust; instead move the arrow part to the previous line
    regs = {f: v[0] for f, v in regions().items()}
    fixed = []
    for m in out:
        if m['text'] is None:
            lines = regs[m['file']]
            cur = lines[m['line'] - 1]
            arrow = cur[cur.index('=>'):]
            m['text'] = ''
            m['prev_text'] = lines[m['line'] - 2].rstrip() + ' ' + arrow
        fixed.append(m)
    return fixed

def make_copy(dst):
    shutil.rmtree(dst, ignore_errors=True)
    os.makedirs(dst)
    subprocess.check_call(['rsync', '-a', '--exclude', 'target', '--exclude', '.git', f'{REPO}/', f'{dst}/'])

def apply(dst, m, orig):
    lines = list(orig[m['file']])
    lines[m['line'] - 1] = m['text']
    if m.get('prev_text') is not None:
        lines[m['line'] - 2] = m['prev_text']
    open(f"{dst}/{m['file']}", 'w').write('\n'.join(lines))

def restore(dst, orig):
    for f, lines in orig.items():
        open(f'{dst}/{f}', 'w').write('\n'.join(lines))

def phase1(workers):
    ms = mutants()
    orig = {f: v[0] for f, v in regions().items()}
    done = set()
    os.makedirs(SCR, exist_ok=True)
    p1 = f'{SCR}/phase1.jsonl'
    if os.path.exists(p1):
        for l in open(p1):
            done.add(json.loads(l)['id'])
    todo = [m for m in ms if m['id'] not in done]
    print(f'{len(ms)} mutants, {len(todo)} to run', flush=True)
    outf = open(p1, 'a')
    def work(k):
        dst = f'{SCR}/w{k}'
        make_copy(dst)
        env = dict(os.environ, CARGO_TARGET_DIR=f'{dst}/target', CARGO_NET_OFFLINE='true', CARGO_BUILD_JOBS=str(max(2, 16 // workers)))
        for i in range(k, len(todo), workers):
            m = todo[i]
            apply(dst, m, orig)
            try:
                r = subprocess.run(['cargo', 'test', '--workspace', '--no-fail-fast', '--offline', '--quiet'], cwd=dst, env=env, stdout=subprocess.PIPE, stderr=subprocess.STDOUT, timeout=300)
                txt = r.stdout.decode(errors='replace')
                if r.returncode == 0:
                    status = 'survived'
                elif 'error: could not compile' in txt or 'error[E' in txt:
                    status = 'nocompile'
                else:
                    status = 'killed'
            except subprocess.TimeoutExpired:
                status = 'timeout'
            rec = dict(m, status=status)
            outf.write(json.dumps(rec) + '\n'); outf.flush()
        restore(dst, orig)
        shutil.rmtree(dst, ignore_errors=True)
    with ThreadPoolExecutor(workers) as ex:
        list(ex.map(work, range(workers)))
    print('phase 1 done', flush=True)

def phase2(workers):
    orig = {f: v[0] for f, v in regions().items()}
    surv = [json.loads(l) for l in open(f'{SCR}/phase1.jsonl')]
    surv = [m for m in surv if m['status'] in ('survived',)]
    p2 = f'{SCR}/phase2.jsonl'
    done = set()
    if os.path.exists(p2):
        for l in open(p2):
            done.add(json.loads(l)['id'])
    todo = [m for m in surv if m['id'] not in done]
    print(f'{len(surv)} survivors of the suite, {len(todo)} to check', flush=True)
    outf = open(p2, 'a')
    snap = os.environ.get('VERIF_SNAPSHOT', '/verif')
    def work(k):
        for i in range(k, len(todo), workers):
            m = todo[i]
            dst = f"{SCR}/m{m['id']}"
            make_copy(dst)
            apply(dst, m, orig)
            env = dict(os.environ, VERIF_SNAPSHOT=snap)
            try:
                r = subprocess.run([f'{snap}/tools/seedeval.sh', dst], env=env, stdout=subprocess.PIPE, stderr=subprocess.STDOUT, timeout=3600)
                txt = r.stdout.decode(errors='replace')
            except subprocess.TimeoutExpired:
                txt = 'TIMEOUT'
            alarms = re.findall(r'^(C\d\d) VIOLATION', txt, re.M)
            mach = re.findall(r'^(C\d\d) MACHINERY', txt, re.M)
            rec = dict(m, alarms=alarms, machinery=mach, raw=txt if (not alarms or mach) else '')
            outf.write(json.dumps(rec) + '\n'); outf.flush()
            shutil.rmtree(dst, ignore_errors=True)
            shutil.rmtree('/tmp/seedeval/' + dst.replace('/', '_'), ignore_errors=True)
    with ThreadPoolExecutor(workers) as ex:
        list(ex.map(work, range(workers)))
    print('phase 2 done', flush=True)

def report():
    p1 = [json.loads(l) for l in open(f'{SCR}/phase1.jsonl')]
    p2 = [json.loads(l) for l in open(f'{SCR}/phase2.jsonl')]
    tri_path = '/verif/seeded/mutation/triage.json'
    tri = json.load(open(tri_path)) if os.path.exists(tri_path) else {}
    os.makedirs('/verif/seeded/mutation', exist_ok=True)
    from collections import Counter
    st = Counter(m['status'] for m in p1)
    caught = [m for m in p2 if m['alarms']]
    silent = [m for m in p2 if not m['alarms']]
    with open('/verif/seeded/mutation/survivors.jsonl', 'w') as f:
        for m in p2:
            m = {k: v for k, v in m.items() if k != 'raw'}
            f.write(json.dumps(m) + '\n')
    per_check = Counter(a for m in caught for a in m['alarms'])
    out = []
    out.append('# One-token mutation campaign against the quick checks\n')
    out.append('Produced by `tools/mutate.py` (suite -> checks -> report) on /repo HEAD `%s` with the harness of /verif `%s`.\n' % (
        subprocess.check_output(['git', '-C', REPO, 'rev-parse', '--short', 'HEAD']).decode().strip(),
        subprocess.check_output(['git', '-C', '/verif', 'rev-parse', '--short', 'HEAD']).decode().strip()))
    out.append('Mutation operators: relational / logical / arithmetic operator swaps, constants 0/1/2, true/false, Less/Greater/Equal, min/max, Including/Excluding, Lower/Upper, any/all, is_some/is_none, operator-kind swaps, dropped `.rev()` / `.flatten()`, field swaps (major/minor/patch, lower/upper, pre_release/build), MAX_SAFE_INTEGER and MAX_LENGTH +-1, space0/space1, dropped `!`; second batch: a dropped conjunct / pattern alternative / iterator adaptor / statement line, `if c` -> `if true` / `if false`, swapped comparison operands, `+= 1` -> `+= 0/2`, multi-digit constants +-1 — on every non-test, non-hook line of src/lib.rs and src/range.rs.\n')
    out.append('| | count |\n|---|---|')
    out.append('| mutants generated | %d |' % len(p1))
    out.append('| do not compile | %d |' % st['nocompile'])
    out.append("| killed by the repository's own suite (133 unit + 5 doc tests) | %d |" % (st['killed'] + st['timeout']))
    out.append("| **survive the repository's suite** | **%d** |" % st['survived'])
    out.append('| of those: at least one quick check alarms | %d |' % len(caught))
    out.append('| of those: no quick check alarms | %d |' % len(silent))
    out.append('')
    out.append('Alarms per check over the suite-surviving mutants: ' + ', '.join('%s %d' % (k, per_check[k]) for k in sorted(per_check)) + '.\n')
    out.append('## Suite-surviving mutants no quick check flags — triage\n')
    out.append('Classes: **equivalent** (no observable change at all), **outside** (observable, but no clause of C01-C18 speaks about it), **missed** (a property is broken and no check saw it; each of these led to a strengthening, see the note).\n')
    out.append('| id | site | change | class | note |\n|---|---|---|---|---|')
    cl = Counter()
    for m in silent:
        t = tri.get(m['id'], {})
        cl[t.get('class', 'untriaged')] += 1
        out.append('| %s | %s:%d | `%s` -> `%s` | %s | %s |' % (m['id'], m['file'], m['line'], m['old'].strip(), m['new'].strip() or '(removed)', t.get('class', 'untriaged'), t.get('note', '')))
    out.append('')
    out.append('Totals: ' + ', '.join('%s %d' % kv for kv in sorted(cl.items())) + '.\n')
    hist = [m for m in caught if tri.get(m['id'], {}).get('class') == 'missed']
    if hist:
        out.append('## Flagged now, missed by the first run of the campaign\n')
        out.append('| id | site | change | what was missing |\n|---|---|---|---|')
        for m in hist:
            out.append('| %s | %s:%d | `%s` -> `%s` | %s |' % (m['id'], m['file'], m['line'], m['old'].strip(), m['new'].strip() or '(removed)', tri[m['id']]['note']))
        out.append('')
    out.append('## Suite-surviving mutants flagged by the checks\n')
    out.append('| site | change | line after the change | alarming checks |\n|---|---|---|---|')
    for m in caught:
        out.append('| %s:%d | `%s` -> `%s` | `%s` | %s |' % (m['file'], m['line'], m['old'].strip(), m['new'].strip() or '(removed)', m['text'].strip().replace('|', '\\|')[:100], ' '.join(m['alarms'])))
    open('/verif/seeded/MUTATION.md', 'w').write('\n'.join(out) + '\n')
    print('\n'.join(out[:16]))

if __name__ == '__main__':
    cmd = sys.argv[1] if len(sys.argv) > 1 else 'list'
    if cmd == 'list':
        ms = mutants()
        for m in ms:
            print(json.dumps(m))
        print(len(ms), file=sys.stderr)
    elif cmd == 'suite':
        phase1(int(sys.argv[2]) if len(sys.argv) > 2 else 4)
    elif cmd == 'checks':
        phase2(int(sys.argv[2]) if len(sys.argv) > 2 else 2)
    elif cmd == 'report':
        report()
