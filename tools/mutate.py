#!/usr/bin/env python3
"""tools/mutate.py — a one-token mutation campaign against the quick checks.

  mutate.py list                      print the mutants (json lines) of /repo's non-test source
  mutate.py suite  <workers>          phase 1: run the repository's own suite on every mutant
                                      (scratch copies under /tmp/mut), write /tmp/mut/phase1.jsonl
  mutate.py checks <workers>          phase 2: run all 18 quick checks (tools/seedeval.sh) on every
                                      mutant that survived the suite, write /tmp/mut/phase2.jsonl
  mutate.py report                    summarise into /verif/seeded/MUTATION.md

Nothing is written to /repo; scratch copies live under /tmp/mut and are removed at the end of
each phase. This is an *evaluation* of the checks (which realistic slips that the repository's
tests do not notice do they notice?), not a check itself.
"""
import json, os, re, shutil, subprocess, sys, hashlib
from concurrent.futures import ThreadPoolExecutor

REPO = '/repo'
SCR = '/tmp/mut'
# non-test regions (1-based inclusive line ranges), found from the `#[cfg(test)]` markers
def regions():
    out = {}
    for f in ('src/lib.rs', 'src/range.rs'):
        lines = open(f'{REPO}/{f}').read().split('\n')
        end = len(lines)
        for i, l in enumerate(lines):
            if l.startswith('#[cfg(test)]') or l.startswith('macro_rules! create_tests_for') or (l.startswith('#[cfg(feature = "serde")]') and i + 1 < len(lines) and lines[i + 1].startswith('#[cfg(test)]')):
                end = i
                break
        out[f] = (lines, end)
    return out

RULES = [
    # (regex, replacements) applied to code part of a line (comments stripped)
    (r' <= ', [' < ']), (r' < ', [' <= ']), (r' >= ', [' > ']), (r' > ', [' >= ']),
    (r' == ', [' != ']), (r' != ', [' == ']),
    (r' && ', [' || ']), (r' \|\| ', [' && ']),
    (r' \+ 1\b', [' + 2', '']), (r' - 1\b', [' - 2', '']),
    (r'\b0\b', ['1']), (r'\b1\b', ['0', '2']), (r'\b2\b', ['1', '3']),
    (r'\btrue\b', ['false']), (r'\bfalse\b', ['true']),
    (r'\bLess\b', ['Greater', 'Equal']), (r'\bGreater\b', ['Less', 'Equal']), (r'Ordering::Equal\b', ['Ordering::Less']),
    (r'\.min\(\)', ['.max()']), (r'\.max\(\)', ['.min()']),
    (r'\.min\(', ['.max(']), (r'\.max\(', ['.min(']),
    (r'\bIncluding\b', ['Excluding']), (r'\bExcluding\b', ['Including']),
    (r'\bBound::Lower\b', ['Bound::Upper']), (r'\bBound::Upper\b', ['Bound::Lower']),
    (r'\.any\(', ['.all(']), (r'\.all\(', ['.any(']),
    (r'\.is_empty\(\)', ['.is_empty() == false']),
    (r'\.is_some\(\)', ['.is_none()']), (r'\.is_none\(\)', ['.is_some()']),
    (r'\bGreaterThanEquals\b', ['GreaterThan']), (r'\bGreaterThan\b(?!Equals)', ['GreaterThanEquals']),
    (r'\bLessThanEquals\b', ['LessThan']), (r'\bLessThan\b(?!Equals)', ['LessThanEquals']),
    (r'\.rev\(\)', ['']), (r'\.flatten\(\)', ['']),
    (r'\bmajor\b', ['minor']), (r'\bminor\b', ['patch', 'major']), (r'\bpatch\b', ['minor']),
    (r'\.first\(\)', ['.last()']), (r'\.last\(\)', ['.first()']),
    (r'\bself\b(?=[^.(:]*\bother\b)', None),  # placeholder: operand swap handled below
    (r'\bMAX_SAFE_INTEGER\b', ['(MAX_SAFE_INTEGER - 1)', '(MAX_SAFE_INTEGER + 1)']),
    (r'\bMAX_LENGTH\b', ['(MAX_LENGTH - 1)', '(MAX_LENGTH + 1)']),
    (r'\bspace0\b', ['space1']), (r'\bspace1\b', ['space0']),
    (r'\bopt\(', None),
    (r'\.unwrap_or\(0\)', ['.unwrap_or(1)']),
    (r'\bupper\b', ['lower']), (r'\blower\b', ['upper']),
    (r'\bpre_release\b', ['build']), (r'\bbuild\b', ['pre_release']),
    (r'!(?=[a-z_(])', ['']),
]

def code_part(line):
    # strip a trailing // comment (no string-literal awareness needed for this code base except "//" never occurs in strings)
    i = line.find('//')
    return line if i < 0 else line[:i]

def mutants():
    out = []
    for f, (lines, end) in regions().items():
        in_hook = False
        in_doc = False
        for ln in range(end):
            line = lines[ln]
            st = line.strip()
            if st.startswith('/**'):
                in_doc = True
            if in_doc:
                if '*/' in st:
                    in_doc = False
                continue
            if 'verif-hooks' in line:
                in_hook = True
            if in_hook:
                # hook items end at a line that is just `}` at column 0 or 4 after the attribute
                if line.rstrip() in ('}', '    }'):
                    in_hook = False
                continue
            if st.startswith('//') or st.startswith('#[') or st.startswith('use ') or st.startswith('*') or not st:
                continue
            code = code_part(line)
            for rx, reps in RULES:
                if reps is None:
                    continue
                for m in re.finditer(rx, code):
                    for r in reps:
                        new = line[:m.start()] + r + line[m.end():]
                        if new != line:
                            out.append({'file': f, 'line': ln + 1, 'col': m.start(), 'old': m.group(0), 'new': r, 'text': new})
    # stable ids
    for m in out:
        m['id'] = hashlib.sha1(f"{m['file']}:{m['line']}:{m['col']}:{m['old']}:{m['new']}".encode()).hexdigest()[:10]
    return out

def make_copy(dst):
    shutil.rmtree(dst, ignore_errors=True)
    os.makedirs(dst)
    subprocess.check_call(['rsync', '-a', '--exclude', 'target', '--exclude', '.git', f'{REPO}/', f'{dst}/'])

def apply(dst, m, orig):
    lines = list(orig[m['file']])
    lines[m['line'] - 1] = m['text']
    open(f"{dst}/{m['file']}", 'w').write('\n'.join(lines))

def restore(dst, orig):
    for f, lines in orig.items():
        open(f'{dst}/{f}', 'w').write('\n'.join(lines))

def phase1(workers):
    ms = mutants()
    orig = {f: v[0] for f, v in regions().items()}
    done = set()
    os.makedirs(SCR, exist_ok=True)
    p1 = f'{SCR}/phase1.jsonl'
    if os.path.exists(p1):
        for l in open(p1):
            done.add(json.loads(l)['id'])
    todo = [m for m in ms if m['id'] not in done]
    print(f'{len(ms)} mutants, {len(todo)} to run', flush=True)
    outf = open(p1, 'a')
    def work(k):
        dst = f'{SCR}/w{k}'
        make_copy(dst)
        env = dict(os.environ, CARGO_TARGET_DIR=f'{dst}/target', CARGO_NET_OFFLINE='true', CARGO_BUILD_JOBS=str(max(2, 16 // workers)))
        for i in range(k, len(todo), workers):
            m = todo[i]
            apply(dst, m, orig)
            try:
                r = subprocess.run(['cargo', 'test', '--workspace', '--no-fail-fast', '--offline', '--quiet'], cwd=dst, env=env, stdout=subprocess.PIPE, stderr=subprocess.STDOUT, timeout=300)
                txt = r.stdout.decode(errors='replace')
                if r.returncode == 0:
                    status = 'survived'
                elif 'error: could not compile' in txt or 'error[E' in txt:
                    status = 'nocompile'
                else:
                    status = 'killed'
            except subprocess.TimeoutExpired:
                status = 'timeout'
            rec = dict(m, status=status)
            outf.write(json.dumps(rec) + '\n'); outf.flush()
        restore(dst, orig)
        shutil.rmtree(dst, ignore_errors=True)
    with ThreadPoolExecutor(workers) as ex:
        list(ex.map(work, range(workers)))
    print('phase 1 done', flush=True)

def phase2(workers):
    orig = {f: v[0] for f, v in regions().items()}
    surv = [json.loads(l) for l in open(f'{SCR}/phase1.jsonl')]
    surv = [m for m in surv if m['status'] in ('survived',)]
    p2 = f'{SCR}/phase2.jsonl'
    done = set()
    if os.path.exists(p2):
        for l in open(p2):
            done.add(json.loads(l)['id'])
    todo = [m for m in surv if m['id'] not in done]
    print(f'{len(surv)} survivors of the suite, {len(todo)} to check', flush=True)
    outf = open(p2, 'a')
    snap = os.environ.get('VERIF_SNAPSHOT', '/verif')
    def work(k):
        for i in range(k, len(todo), workers):
            m = todo[i]
            dst = f"{SCR}/m{m['id']}"
            make_copy(dst)
            apply(dst, m, orig)
            env = dict(os.environ, VERIF_SNAPSHOT=snap)
            try:
                r = subprocess.run([f'{snap}/tools/seedeval.sh', dst], env=env, stdout=subprocess.PIPE, stderr=subprocess.STDOUT, timeout=3600)
                txt = r.stdout.decode(errors='replace')
            except subprocess.TimeoutExpired:
                txt = 'TIMEOUT'
            alarms = re.findall(r'^(C\d\d) VIOLATION', txt, re.M)
            mach = re.findall(r'^(C\d\d) MACHINERY', txt, re.M)
            rec = dict(m, alarms=alarms, machinery=mach, raw=txt if (not alarms or mach) else '')
            outf.write(json.dumps(rec) + '\n'); outf.flush()
            shutil.rmtree(dst, ignore_errors=True)
            shutil.rmtree('/tmp/seedeval/' + dst.replace('/', '_'), ignore_errors=True)
    with ThreadPoolExecutor(workers) as ex:
        list(ex.map(work, range(workers)))
    print('phase 2 done', flush=True)

if __name__ == '__main__':
    cmd = sys.argv[1] if len(sys.argv) > 1 else 'list'
    if cmd == 'list':
        ms = mutants()
        for m in ms:
            print(json.dumps(m))
        print(len(ms), file=sys.stderr)
    elif cmd == 'suite':
        phase1(int(sys.argv[2]) if len(sys.argv) > 2 else 4)
    elif cmd == 'checks':
        phase2(int(sys.argv[2]) if len(sys.argv) > 2 else 2)
