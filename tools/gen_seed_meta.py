#!/usr/bin/env python3
"""Writes /verif/seeded/<id>/meta.json and /verif/seeded/README.md from the detection results (detected.txt)."""
import json, os, re
NEEDS = {
 'C01-1': ("C01","a numeric patch after a wildcard minor under an operator (`>=1.x.3`, `~1.x.3`)","missed by nothing; caught by C01 from the start"),
 'C01-2': ("C01","a prerelease lower bound on another triple plus a prerelease upper bound on the version's triple (`>=1.0.0-alpha <2.0.0-beta` with 2.0.0-alpha)",""),
 'C02-1': ("C02","an exact prerelease comparator first, then a comparator without a tag on that triple (`1.2.3-alpha >=1.0.0`); order dependent",""),
 'C02-2': ("C02","a later `||` alternative with a prerelease bound nested inside an earlier wider release-only alternative (`>=1.0.0 || 1.5.0-beta`)",""),
 'C03-1': ("C03","an exclusive upper comparator whose tag starts with numeric 0 and has more identifiers (`<1.2.3-0.5`)","MISSED at first (tag alphabet had no `0.x` shape); caught after adding the tag `0.a` to the universes, Engine A qualifiers and Engine C bounds"),
 'C03-2': ("C03","a wildcard partial carrying a qualifier under `>=`, `<`, `~>` or as hyphen lower end (`>=1.2.x-beta`)","MISSED at first (qualifiers were generated only on numeric triples); caught after allowing a qualifier after any third component"),
 'C04-1': ("C04","a 20-digit numeric prerelease identifier compared with `-`-led or digit-led alphanumerics","missed by C04 at first (its universe was built from struct literals only; C05 and C12 caught it); caught by C04 after adding the parsed twins of all universe texts"),
 'C04-2': ("C04","two versions equal in precedence but with different build metadata, observed through Hash",""),
 'C05-1': ("C05","a non-ASCII Unicode letter or digit inside an identifier (`1.2.3-béta`)",""),
 'C05-2': ("C05","an input longer than 256 bytes whose excess is blank padding",""),
 'C06-1': ("C06","an over-long input with a 4-byte character starting exactly at byte 253, then `location()`",""),
 'C06-2': ("C06","a run of thousands of blanks between comparators (quadratic parse time)","caught by the growth measurement (pattern of blanks) — the labelled measurement, not the exhaustive part"),
 'C07-1': ("C07","`<=v` intersected with `<v` in that operand order at the same version",""),
 'C07-2': ("C07","a multi-alternative operand one of whose alternatives lies inside the other operand (`^1` with `1.2.3 || 2.0.0`)",""),
 'C08-1': ("C08","B with several alternatives: an earlier one splits A in two, a later one covers the lower remainder",""),
 'C08-2': ("C08","A with two alternatives of which B covers exactly one",""),
 'C09-1': ("C09","`other` with alternatives written out of ascending order (`1.2.3` vs `2.0.0 || 1.2.3`)",""),
 'C09-2': ("C09","receiver with inclusive upper bound, argument with exclusive lower bound at the same version (`<=1.2.3` vs `>1.2.3`), that operand order only",""),
 'C10-1': ("C10","A with exclusive upper, B with inclusive upper at the same version (`<1.2.3` vs `<=1.2.3`); two cooperating sites",""),
 'C10-2': ("C10","range bounds carrying build metadata (`>=1.2.3` vs `>=1.2.3+build.5`)","caught by C04 from the start; caught by C10 itself after adding build-metadata leaves to Engine C"),
 'C11-1': ("C11","exclusive release lower bound directly under an inclusive prerelease upper bound of the next patch (`>1.2.3 <=1.2.4-rc.1`)",""),
 'C11-2': ("C11","exclusive release lower bound directly under a prerelease upper bound of the next patch (`>1.0.0 <1.0.1-5`)",""),
 'C12-1': ("C12","a prerelease whose last identifier ends in a hyphen (`1.2.3-rc-`, `1.2.3---`)",""),
 'C12-2': ("C12","no prerelease and at least two build identifiers (`1.2.3+build.5`)",""),
 'C13-1': ("C13","a range whose printed form exceeds 256 bytes (>= 15 alternatives, or a chain of differences)","MISSED at first (no range wider than 8 alternatives was explored); caught after adding the wide families to C13 and C01"),
 'C13-2': ("C13","loose hyphen range without lower end and with wildcard upper end after leading whitespace (` - *`)",""),
 'C14-1': ("C14","the only prerelease tag of the range on an inclusive upper bound (`<=2.0.0-rc.1`) and a prerelease as extreme element",""),
 'C14-2': ("C14","min_satisfying with a multi-alternative range one of whose alternatives matches nothing in the list",""),
 'C15-1': ("C15","B with alternatives out of ascending order in a difference",""),
 'C15-2': ("C15","A with two alternatives of which B covers exactly one (same patch as C08-2, found independently)",""),
 'C16-1': ("C16","receiver is the higher release, argument a lower `X.0.0-pre`, higher release with non-zero minor/patch",""),
 'C16-2': ("C16","a tag-only difference observed through Display of the result",""),
 'C17-1': ("C17","over-long input with a multi-byte character straddling byte 256",""),
 'C17-2': ("C17","over-long input containing a newline within the first 256 bytes (the only errors on a later line)","MISSED at first (no over-long multi-line inputs); caught after adding the long multi-line family to C17 and C06"),
 'C18-1': ("C18","a 4-tuple of a 64-bit type whose fourth element exceeds u32::MAX",""),
 'C18-2': ("C18","a 4-tuple whose fourth element is exactly MAX_SAFE_INTEGER (parser side off-by-one)",""),
}

NEEDS.update({
 'C01-3': ("C01","a component zero-padded to 21 or more digits (`>=0000000000000000000001.0.0`)","NOT FLAGGED, deliberately: node-semver itself refuses components longer than 16 digits, and the property lets the crate choose which loose spellings it accepts (an unparseable token is dropped); a check demanding 21-digit zero padding would alarm on node-conformant code"),
 'C02-3': ("C02","an unrecognised token containing a single `|` followed by more comparators or alternatives (`1.0.0 || x|y || 2.0.0`)","caught by C01 from the start (garbage deviation) only after adding the tokens `x|y` and `|`; C02 itself after adding such sides"),
 'C03-3': ("C03","majors congruent modulo 2^28 (`>=1.0.0-alpha` with 268435457.0.0-beta): a packed triple comparison","MISSED at first (no large components next to the gate); caught after adding the bit-boundary family (base triple vs the same triple with 2^k-1, 2^k, 2^k+1 added to one component, every k)"),
 'C04-3': ("C04","two different numeric identifiers above 2^53 within one f64 ulp","MISSED at first; caught after adding identifiers 2^53, 2^53+1, u64::MAX-1 (and teaching the node cross-check that node compares numerics as doubles)"),
 'C05-3': ("C05","a component of 2^64 or more whose low 64 bits are at most MAX_SAFE_INTEGER",""),
 'C06-3': ("C06","an all-digit identifier with value u64::MAX+1 .. u64::MAX+4 (unchecked add in a hand-written digit fold)",""),
 'C07-3': ("C07","prerelease identifiers 9, 10 and 1a together (non-transitive hand-written Identifier order)","caught by C04 from the start; by C07/C09/C03 after adding the exotic leaf set with tags 9, 10, 1a"),
 'C08-3': ("C08","B with three alternatives: two exact holes then a cover of the lowest remainder, in that order","caught after adding three-alternative operands in every order (not evaluated before that)"),
 'C09-3': ("C09","a lower bound with patch above 2^32 (or minor above 2^33) against an upper bound on the next minor/major","MISSED at first; caught after adding the exotic and bit-boundary leaf sets"),
 'C10-3': ("C10","a component exactly 2^21 against its carry partner (1.0.2097152 vs 1.1.0): packed Version::cmp","MISSED at first (the bit family had 2^k+1 only); caught after extending it to 2^k-1, 2^k, 2^k+1 and adding the same family to C04"),
 'C11-3': ("C11","exclusive lower bound with patch exactly MAX_SAFE_INTEGER-1",""),
 'C12-3': ("C12","a zero-padded 20-digit numeric identifier with value >= 10^19",""),
 'C13-3': ("C13","a comparator with build metadata and no prerelease tag (`>=1.2.3+build`)",""),
 'C14-3': ("C14","a list of more than 32 elements whose extreme satisfying group consists of several prereleases of one triple","MISSED at first (lists had at most 4 elements); caught after adding long lists (5..1025 elements, rotations)"),
 'C15-3': ("C15","exclusive prerelease lower bound and exclusive release upper bound on the next patch (`>1.2.9-rc.1 <1.2.10`)","caught by C01 from the start; by C15/C07 in quick after adding a patch-adjacent bound to the exotic leaf set (thorough had it)"),
 'C16-3': ("C16","majors congruent modulo 2^28, or residues in reverse order with mixed prerelease flags (packed Version::cmp)",""),
 'C17-3': ("C17","an oversized component in an incomplete core (`900719925474100`, `1.900719925474100.`)","MISSED at first (the kind rule required an otherwise valid version); caught after adding the prefix form of the rule and the incomplete-core family"),
 'C18-3': ("C18","two different large components in one tuple (bitwise OR above MAX_SAFE_INTEGER, wrong mask)",""),
})

NEEDS.update({
 'C01-4': ("C01","`~>` (not `~`) on a full version carrying a prerelease tag (`~>1.2.3-beta.2`)",""),
 'C02-4': ("C02","an alternative that starts with a stray `-` after `|| ` (`1 || - 3`): blanks after `||` no longer consumed","written against the tree before fix b75c1d9; on that tree C01 alarms (stray `-` token family); the fix of the loose hyphen form (` - 3` now means `3`) makes this change behaviour-neutral on HEAD"),
 'C03-4': ("C03","two `||` alternatives: the tag in one, the bounds met by the other (`>=1.0.0 || 2.0.0-beta.1` with 2.0.0-beta.2)",""),
 'C04-4': ("C04","max/min_satisfying with several satisfying prereleases of one triple in an unlucky list order","caught by C14 from the start; by C04 itself after adding the resolver entry points to its list sweep"),
 'C05-4': ("C05","serde Deserialize from a non-borrowing source (escape sequences in the JSON text, from_value, from_reader); feature `serde` only","caught by C05 (`serde` clause on inputs with a tab) from the start; the from_value / from_reader observation was added afterwards; the demo needs `--features serde`"),
 'C01-6': ("C01","a caret over major 0, minor literally 0 and no concrete patch (`^0.0`, `^0.0.x`): merged into the `^0` arm",""),
 'C02-6': ("C02","an inclusive upper bound first and an exclusive upper bound at the same version second (`<=1.2.3 <1.2.3`): the one equal-version pair of Bound::cmp the repository's tests do not pin (found independently three times: C02-6 = C08-6 = C15-6)",""),
 'C03-6': ("C03","a tagged upper bound and a prerelease of a LOWER major with the same minor and patch (`<2.0.0-rc.1` with 1.0.0-beta): `<=` for `==` in the upper-bound gate",""),
 'C04-6': ("C04","min_satisfying over alternatives written in descending order (`^2.0.0 || ^1.0.0`): first matching alternative's minimum instead of the global one",""),
 'C05-6': ("C05","a first build identifier starting with `-` (`1.2.3+-`, `1.2.3+-x`): build parsed with the prerelease parser, whose optional hyphen swallows it",""),
 'C06-6': ("C06","an over-long input with a newline at byte p < 256 and a multi-byte character covering byte 256-p, then `location()` (first instead of last newline)",""),
 'C07-6': ("C07","an overlap whose bounds hold only prereleases no bound anchors (`>1.2.3` with `<1.2.4`; `<0.0.0` with `<1.0.0`): dropped because min_version is None",""),
 'C08-6': ("C08","same change as C02-6 (`<=v` minuend, `<v` subtrahend at the same version)",""),
 'C09-6': ("C09","an exclusive upper bound and an exclusive lower bound at the same version (`<1.0.0` vs `>1.0.0`)",""),
 'C10-6': ("C10","B admitting no version (`<0.0.0-0`, `>1.2.3 <1.2.4-0`) and not inside A: allows_all answers true, allows_any false, difference Some",""),
 'C11-6': ("C11","an alternative admitting no version written before the alternative holding the minimum (`<0.0.0-0 || >=2.0.0`): map_while for filter_map",""),
 'C12-6': ("C12","two or more build identifiers (`1.2.3+build.5` printed `+build-5`; == ignores build)",""),
 'C13-6': ("C13","a bound whose tag has three or more identifiers (`>=1.2.3-alpha.beta.1` printed without the third)","caught by C12 at once; MISSED by C13 (range bounds had at most two identifiers); caught after adding the long-tag families (3..6 identifiers) to C13 and to Engine A's numeric family"),
 'C14-6': ("C14","a range whose upper bound is tagged on a higher major with the same minor and patch as a prerelease in the list (`1 - 2` = `<3.0.0-0` with 2.0.0-rc.1)","caught by C01/C02/C03/C07/C11 at once; MISSED by C14 (its oracle took the crate's own satisfies as the meaning of 'admits'); caught after adding the clause `admit` (the selected prerelease must pass the reference gate over the crate's bounds) and pool versions sharing part of a tagged bound's triple"),
 'C15-6': ("C15","same change as C02-6 (commutativity of intersect at `<=v` / `<v`)",""),
 'C16-6': ("C16","a prerelease with non-zero minor or patch against a release of a higher major with non-zero minor or patch (`1.1.0-1` vs `2.0.1`)",""),
 'C17-6': ("C17","an error on a line that begins with whitespace (`\" 1.2\"`: column shifted by the indentation; `\"  foo\"` for Range: subtraction overflow)",""),
 'C18-6': ("C18","a component exactly equal to MAX_SAFE_INTEGER (`>=` for `>` in number())",""),
 'C01-7': ("C01","three or more space-joined comparators with a contradiction that is not in last position (`>2 <1 1.5.0`): a fold that restarts after an empty intersection (same idea as C02-5, found independently)",""),
 'C02-7': ("C02","a set whose lower and upper bound are both tagged, on different releases, and a prerelease of the upper bound's release (`>=1.0.0-alpha <2.0.0-rc` with 2.0.0-beta): only the first tagged bound consulted",""),
 'C03-7': ("C03","the constructed value `Range::any()` (both ends unbounded, not obtainable from parse): early `return true` before the prerelease gate",""),
 'C04-7': ("C04","a first prerelease identifier that begins with a hyphen (`1.0.0--1` parsed as `1.0.0-1`): any run of leading hyphens taken as the separator","caught by C05/C12 at once; MISSED by C04 (no identifier of its universe began with a hyphen except the lone `-`); caught after adding `-1`, `-a`, `--` to the identifier alphabet (the parsed twins of the universe texts then disagree with the reference order)"),
 'C05-7': ("C05","a well-formed version longer than MAX_LENGTH through `str::parse` / serde (the guard stayed in the generic wrapper that FromStr bypasses)",""),
 'C06-7': ("C06","caret or tilde with a wildcard minor and a numeric patch (`^1.x.3`): normalisation slip + dead arm turned into unreachable!()",""),
 'C07-7': ("C07","the parsed wildcard `*` (= `>=0.0.0`) intersected with a range whose lower end lies below `>=0.0.0` (`<1.0.0`, `>=0.0.0-rc.1`): `*` taken as the identity",""),
 'C08-7': ("C08","B an exact prerelease version lying inside A's bounds while A has no tag on that triple (`>=1.0.0` minus `1.2.3-alpha`): fast path asking satisfies instead of bounds",""),
 'C09-7': ("C09","a hyphen range written the wrong way round as one alternative (`3.0.0 - 1.0.0 || 9.0.0`) stored as an inverted interval (constructor bypassing BoundSet::new); allows_any true, intersect None","caught by C13 at once; MISSED by C09 (no leaf was written as a reversed or contradictory alternative); caught after adding such spellings to every leaf set"),
 'C10-7': ("C10","A with lower bound `>=0.0.0[-tag]` (`*`) and B open below with an upper bound among the prereleases of 0.0.0 (`<0.0.0-5`): Bound::cmp treating the 0.0.0 floor as unbounded",""),
 'C11-7': ("C11","an exclusive release lower bound one patch below an inclusive prerelease upper bound (`>1.0.0 <=1.0.1-beta`): the bound itself instead of the `-0` floor as candidate",""),
 'C12-7': ("C12","a version BUILT with a numeric build identifier (`build: [Numeric(7)]`) against its parse (build identifiers kept verbatim as alphanumeric by the parser)",""),
 'C13-7': ("C13","an inclusive lower bound `>=0.0.0-0` (parsed, or produced by subtracting an empty range) printed as if unbounded",""),
 'C14-7': ("C14","two or more alternatives with a tagged comparator that is not the overall lowest / highest bound (`^1.0.0 || ^2.0.0-rc.1`): span pre-filter applying the prerelease gate",""),
 'C15-7': ("C15","a `-0` tag on an exclusive lower bound or a tagged upper bound over a `-0` ceiling in a difference (`>=1.0.0` minus `>2.0.0-0`): flip stripping the `-0`",""),
 'C16-7': ("C16","same change as C04-7, observed through diff (`1.0.0--1` vs `1.0.0-1` reported equal)","caught by C05/C12 at once; MISSED by C16 (its universe is built from values, so a parser slip was invisible); caught after adding hyphen-led tags and the parsed twin of every universe text to C16"),
 'C17-7': ("C17","same change as C05-7; the over-long input is accepted through FromStr, so no error exists whose accessors C17 could inspect","not flagged by C17 on purpose: C17 speaks about the errors of Version::parse / Range::parse, which are unchanged; C05 (whose observation points include str::parse and serde) flags it"),
 'C18-7': ("C18","a prerelease number containing the digit 9 (`'0'..'9'` exclusive range in the identifier character set)",""),
 'C06-5': ("C06","a minuend with an exclusive release lower bound `>a` and a subtrahend that starts exactly at the `-0` floor of the next patch and ends strictly inside (BoundSet::new refuses `>X.Y.Z <X.Y.(Z+1)-0`, difference unwraps)","MISSED at first (no leaf set held both `X.Y.Z` and `X.Y.(Z+1)-0`); caught after adding the -0 floor of the next patch to the exotic and thorough leaf sets; C08 and C15 alarm as well"),
 'C06-4': ("C06","range bounds carrying build metadata in a two-sided difference (derived PartialEq compares build; unwrap on None)",""),
 'C07-4': ("C07","inclusive bounds meeting at one version whose build metadata differs (`>=1.2.3+build.5` with `<=1.2.3`)",""),
 'C08-4': ("C08","a remainder that contains only prereleases (`>1.0.0 \\ >=1.0.1`) or only 0.0.0 prereleases (`<1.0.0 \\ *`)",""),
 'C09-4': ("C09","bounds overlap containing no satisfiable version (`>1.2.3` vs `<1.2.4`, `<*`)",""),
 'C10-4': ("C10","B an exact prerelease version inside A's bounds, A without a tag on that triple (allows_any through satisfies)",""),
 'C11-4': ("C11","an open-below alternative next to an alternative whose floor is a prerelease of 0.0.0 (`<1.0.0 || >=0.0.0-alpha`)","MISSED at first (no comparator on a 0.0.0 prerelease in the alternative set); caught after adding `0.0.0-a` to the core partials"),
 'C12-4': ("C12","HISTORY: two consecutive to_string() calls on versions equal up to build metadata (thread-local Display memo keyed by ==)","detected during exploration (consecutive built values are such siblings); not reproducible when the case is replayed in isolation, reported as a hidden-state violation"),
 'C13-4': ("C13","a bare version directly followed by `||` without blank (what Display prints) in a non-last alternative",""),
 'C14-4': ("C14","a multi-alternative range with an exact / inclusive-ended alternative, the boundary version in the list before a better element",""),
 'C15-4': ("C15","range comparators carrying build metadata at coinciding bounds (Version::eq compares build) — same idea as C10-2",""),
 'C16-4': ("C16","equal prerelease tags and different build metadata (build tie-break in Version::cmp)",""),
 'C17-4': ("C17","a rejected range whose text starts with blanks (input() loses them)",""),
 'C18-4': ("C18","HISTORY: Version::parse of `X+build` immediately followed by parse of `X` (thread-local parse memo keyed without build)","caught by C05 / C12 from the start (the input-tree walk visits such siblings consecutively); by C18 itself after adding a sibling parse before each comparison"),
})

NEEDS.update({
 'C01-5': ("C01","a `||` alternative lying inside the alternative right before it and carrying a prerelease tag (`^1.2.0 || 1.4.0-rc.1 - 1.6.x`), dropped by a dedup at parse time",""),
 'C02-5': ("C02","three or more space-joined comparators whose prefix is already contradictory (the fold restarts after an empty intersection)",""),
 'C03-5': ("C03","lower bound tagged on another triple, upper bound tagged on the version's triple (same idea as C01-2, found independently)",""),
 'C04-5': ("C04","prerelease lists sharing an equal numeric identifier at a non-final position and differing after it",""),
 'C05-5': ("C05","an all-digit last identifier directly followed by a trailing blank (`1.0.0-alpha.9 `)",""),
 'C07-5': ("C07","a narrow prerelease-bounded piece inside a wider release-only piece computed earlier in a multi-alternative intersection (also A & A)","MISSED at first in quick (two-alternative leaves had no tagged bounds); caught after adding tagged two-alternative operands in both orders, each also against itself"),
 'C08-5': ("C08","A with overlapping alternatives, an alternative of B contained in an earlier alternative of A and overlapping a later one",""),
 'C09-5': ("C09","an even number of identical pieces in a multi-alternative intersection (mutual-subsumption dedup removes both)",""),
 'C10-5': ("C10","a numeric identifier against a digit- or hyphen-led alphanumeric one at the same position (hand-rolled comparison via strings)",""),
 'C11-5': ("C11","alternatives sorted by lower bound and the first non-empty one taken: an exclusive release lower bound / open-below alternative next to a prerelease floor",""),
 'C12-5': ("C12","a prerelease or build list whose first identifier occurs again later (`rc.1.rc.2`)",""),
 'C13-5': ("C13","inclusive bounds on the same triple with different tags (`>=1.2.3-beta.2 <=1.2.3` printed as an exact version)",""),
 'C14-5': ("C14","a later alternative bounds-contained in an earlier one and carrying the only tag that admits the extreme prerelease (`1.x || ^1.4.0-beta.2`)","MISSED at first (no such nested tagged alternative among the 40 ranges); caught after adding six of them"),
 'C15-5': ("C15","overlapping alternatives in narrow-before-wide order intersected with a range covering both (allows_all arguments swapped)",""),
 'C16-5': ("C16","tags `<name>.<number>...` equal in the first two identifiers and differing later","caught by C04 from the start; by C16 after adding tags `a.0.1`, `a.0.b` to its universe"),
 'C17-5': ("C17","a range containing a full version followed by a dangling `+` (cut error escaping the range parser)",""),
 'C18-5': ("C18","a component above 51 (u8/i8), 13107 (16-bit) or 858993459 (32-bit): MAX_SAFE_INTEGER narrowed per integer type",""),
})
rows=[]
for sid,(prop,needs,note) in sorted(NEEDS.items()):
    d=f'/verif/seeded/{sid}'
    if not os.path.isdir(d): continue
    det=[]
    f=f'{d}/detected.txt'
    if os.path.exists(f):
        det=[l.split()[0] for l in open(f, errors='replace') if 'VIOLATION' in l]
        mach=[l.split()[0] for l in open(f, errors='replace') if 'MACHINERY' in l]
    else: mach=[]
    meta={"seed":sid,"breaks_property":prop,"needs_to_manifest":needs,
          "source":"independent sub-agent given only the property text and a scratch worktree of /repo",
          "confirmed":"tools/seedconfirm.sh: existing suite 133/133 + 5 doctests pass with the change; seeded_demo.rs fails with it and passes without it",
          "evaluated":"tools/seedmatrix.sh: patch applied to a scratch worktree of /repo HEAD, all 18 quick checks run against it (tools/seedeval.sh)",
          "evaluated_on_repo_commit":(open(f'{d}/base.txt').read().strip() if os.path.exists(f'{d}/base.txt') else "HEAD"),
          "quick_checks_alarming":det,"detected_by_own_property":prop in det,"history":note}
    json.dump(meta,open(f'{d}/meta.json','w'),indent=1,ensure_ascii=False)
    rows.append((sid,prop,needs,det,note))
with open('/verif/seeded/README.md','w') as f:
    f.write("# Seeded property-breaking changes\n\nEach directory holds `patch.diff` (against /repo HEAD, or against the commit named in `base.txt` where a later `fix:` commit touched the same lines), the sub-agent's demonstration `seeded_demo.rs` (an integration test that fails with the change and passes without it), `meta.json` and `detected.txt` (output of the 18 quick checks on a scratch worktree with the change). Every change compiles and passes the repository's own 133 unit tests + 5 doctests.\n\n| seed | breaks | needs | quick checks that alarm | history |\n|---|---|---|---|---|\n")
    for sid,prop,needs,det,note in rows:
        f.write(f"| {sid} | {prop} | {needs} | {' '.join(det) if det else '(not evaluated yet)'} | {note} |\n")
print(len(rows),"seeds")
