// Prototype of the reference semantics ("documented desugaring"), compared against node-semver 7.6.2.
const semver = require('/usr/lib/node_modules/npm/node_modules/semver');
// version: {t:[M,m,p], pre:[ids]}  ids: numbers or strings
function V(M,m,p,pre){ return {t:[M,m,p], pre: pre||[]}; }
function cmpId(a,b){ const na=typeof a==='number', nb=typeof b==='number';
  if(na&&nb) return a<b?-1:a>b?1:0; if(na) return -1; if(nb) return 1; return a<b?-1:a>b?1:0; }
function cmpV(a,b){ for(let i=0;i<3;i++){ if(a.t[i]!==b.t[i]) return a.t[i]<b.t[i]?-1:1; }
  if(!a.pre.length&&!b.pre.length) return 0; if(!a.pre.length) return 1; if(!b.pre.length) return -1;
  for(let i=0;;i++){ if(i>=a.pre.length&&i>=b.pre.length) return 0; if(i>=a.pre.length) return -1; if(i>=b.pre.length) return 1;
    const c=cmpId(a.pre[i],b.pre[i]); if(c) return c; } }
function parseV(s){ const m=s.match(/^(\d+)\.(\d+)\.(\d+)(?:-([^+]+))?(?:\+.*)?$/); const pre=m[4]?m[4].split('.').map(x=>/^\d+$/.test(x)?Number(x):x):[]; return V(+m[1],+m[2],+m[3],pre); }
// AST: comparator {op, M,m,p (null = wildcard), pre:[...]}  ; hyphen {lo:partial, hi:partial}
// desugar -> list of primitive comparators {op:'<'|'<='|'>'|'>='|'=', v} ; empty list = ANY ; null = NONE(<0.0.0-0)
const Z=[0];
function norm(P){ let {M,m,p,pre}=P; if(M===null){m=null;p=null;} if(m===null){p=null;} if(p===null) pre=[]; return {M,m,p,pre:pre||[]}; }
const NONE=[{op:'<',v:V(0,0,0,Z)}];
function desugar(c){
  const P=norm(c); const {M,m,p,pre}=P; const op=c.op;
  if(op==='^'){ if(M===null) return [];
    if(m===null) return [{op:'>=',v:V(M,0,0)},{op:'<',v:V(M+1,0,0,Z)}];
    if(p===null) return M===0? [{op:'>=',v:V(0,m,0)},{op:'<',v:V(0,m+1,0,Z)}] : [{op:'>=',v:V(M,m,0)},{op:'<',v:V(M+1,0,0,Z)}];
    const lo={op:'>=',v:V(M,m,p,pre)};
    if(M>0) return [lo,{op:'<',v:V(M+1,0,0,Z)}]; if(m>0) return [lo,{op:'<',v:V(0,m+1,0,Z)}]; return [lo,{op:'<',v:V(0,0,p+1,Z)}]; }
  if(op==='~'||op==='~>'){ if(M===null) return [];
    if(m===null) return [{op:'>=',v:V(M,0,0)},{op:'<',v:V(M+1,0,0,Z)}];
    if(p===null) return [{op:'>=',v:V(M,m,0)},{op:'<',v:V(M,m+1,0,Z)}];
    return [{op:'>=',v:V(M,m,p,pre)},{op:'<',v:V(M,m+1,0,Z)}]; }
  // primitives and bare partials
  const o = (op===''||op==='=')?'=':op;
  if(M===null){ if(o==='>'||o==='<') return NONE; return []; }
  if(p!==null && m!==null){ return [{op:o,v:V(M,m,p,pre)}]; }
  if(o==='='){ return m===null? [{op:'>=',v:V(M,0,0)},{op:'<',v:V(M+1,0,0,Z)}] : [{op:'>=',v:V(M,m,0)},{op:'<',v:V(M,m+1,0,Z)}]; }
  if(o==='>'){ return m===null? [{op:'>=',v:V(M+1,0,0)}] : [{op:'>=',v:V(M,m+1,0)}]; }
  if(o==='<='){ return m===null? [{op:'<',v:V(M+1,0,0,Z)}] : [{op:'<',v:V(M,m+1,0,Z)}]; }
  if(o==='<'){ return [{op:'<',v:V(M,m||0,0,Z)}]; }
  if(o==='>='){ return [{op:'>=',v:V(M,m||0,0)}]; }
}
function desugarHyphen(h){ const lo=norm(h.lo), hi=norm(h.hi); const out=[];
  if(lo.M!==null) out.push({op:'>=',v:V(lo.M,lo.m||0,lo.p||0,lo.pre)});
  else out.push({op:'>=',v:V(0,0,0)}); // documented: missing pieces replaced with zeroes
  if(hi.M===null){} else if(hi.m===null) out.push({op:'<',v:V(hi.M+1,0,0,Z)}); else if(hi.p===null) out.push({op:'<',v:V(hi.M,hi.m+1,0,Z)}); else out.push({op:'<=',v:V(hi.M,hi.m,hi.p,hi.pre)});
  return out; }
function testC(c,v){ const k=cmpV(v,c.v); switch(c.op){case '<':return k<0;case '<=':return k<=0;case '>':return k>0;case '>=':return k>=0;case '=':return k===0;} }
function satSet(cs,v){ for(const c of cs) if(!testC(c,v)) return false;
  if(v.pre.length){ return cs.some(c=>c.v.pre.length && c.v.t[0]===v.t[0]&&c.v.t[1]===v.t[1]&&c.v.t[2]===v.t[2]); } return true; }
function quirk(cs,v){ return v.pre.length && v.t[0]===0&&v.t[1]===0&&v.t[2]===0 && cs.some(c=>c.op==='>='&&cmpV(c.v,V(0,0,0))===0); }
// rendering
function rp(P){ const f=x=>x===null?'x':String(x); let s=f(P.M); if(P.m!==undefined) s+='.'+f(P.m); if(P.p!==undefined){ s+='.'+f(P.p); if(P.preS) s+=P.preS; } return s; }
const comps=[null,0,1,2]; const partials=[];
for(const a of comps){ partials.push({M:a}); for(const b of comps){ partials.push({M:a,m:b}); for(const c of comps){ partials.push({M:a,m:b,p:c});
  if(a!==null&&b!==null&&c!==null) for(const [q,pre] of [['-0',[0]],['-a',['a']],['-a.0',['a',0]]]) partials.push({M:a,m:b,p:c,preS:q,pre}); }}}
function full(P){ return {M:P.M, m:P.m===undefined?null:P.m, p:P.p===undefined?null:P.p, pre:P.pre||[]}; }
const versions=[]; for(let a=0;a<4;a++)for(let b=0;b<4;b++)for(let c=0;c<4;c++)for(const p of ['','-0','-a','-a.0','-b']) versions.push(`${a}.${b}.${c}${p}`);
const pv=versions.map(parseV);
let n=0,bad=0,masked=0; const show=[];
function check(text, sets){ // sets: list (alternatives) of comparator lists
  n++; let R; try{ R=new semver.Range(text,{loose:true}); }catch(e){ R=null; }
  for(let i=0;i<pv.length;i++){ const ref = sets.some(cs=>satSet(cs,pv[i])); const node = R? R.test(versions[i]) : false;
    if(ref!==node){ if(sets.some(cs=>quirk(cs,pv[i]))){ masked++; continue; } bad++; if(show.length<40) show.push(`${text} @ ${versions[i]} ref=${ref} node=${node} (${R?R.range:'INVALID'})`); return; } } }
const ops=['','=','<','<=','>','>=','~','~>','^'];
const simples=[]; for(const o of ops) for(const P of partials) simples.push({text:o+rp(P), cs:desugar(Object.assign({op:o},full(P)))});
for(const s of simples) check(s.text,[s.cs]);
console.log('singles',n,'bad',bad,'masked',masked);
for(const A of partials) for(const B of partials) check(rp(A)+' - '+rp(B), [desugarHyphen({lo:full(A),hi:full(B)})]);
console.log('+hyphens',n,'bad',bad,'masked',masked);
const red=simples.filter(s=>!/2/.test(s.text)&&!s.text.includes('~>'));
for(const a of red) for(const b of red) check(a.text+' '+b.text,[a.cs.concat(b.cs)]);
console.log('+pairs',n,'bad',bad,'masked',masked);
const red2=red.filter((_,i)=>i%7===0);
for(const a of red2) for(const b of red2) check(a.text+' || '+b.text,[a.cs,b.cs]);
console.log('+ors',n,'bad',bad,'masked',masked);
console.log(show.join('\n'));
