const semver = require('/usr/lib/node_modules/npm/node_modules/semver');
const vs = [];
for (const a of [0,1,2]) for (const b of [0,1,2]) for (const c of [0,1,2]) for (const p of ['', '-0', '-1', '-a', '-a.0','-a.b','-10','-2','-A','-a-','--','-1a']) for (const bm of ['', '+b']) vs.push(`${a}.${b}.${c}${p}${bm}`);
console.log(JSON.stringify(vs));
const out=[];
for (const x of vs) { const row=[]; for (const y of vs) { const d = semver.diff(x,y); const c = semver.compare(x,y); row.push((d===null?'null':d)+':'+c); } console.log(row.join(',')); }
